#!/bin/bash
# Build the verification harness offline from files on disk only.
set -eu
cd "$(dirname "$0")/mc"
export CARGO_NET_OFFLINE=true RUSTUP_TOOLCHAIN=${VX_TOOLCHAIN:-1.88.0}
cargo build --offline --release
cargo build --offline --profile fast
echo "setup ok"
