#!/usr/bin/env python3
"""Writes seeded/<ID>-<k>/meta.json from notes.md (written by the seeding sub-agent),
validation.json (tools/validate_seed.sh), detection.json (tools/seed_matrix.sh) and the manual
annotations below (what had to be strengthened in a check before it caught the change)."""
import json, os, re, glob, subprocess

ROOT = os.path.join(os.path.dirname(os.path.abspath(__file__)), "..", "seeded")

STRENGTHENED = {
    "C09-4": "missed at first: the simulated devices only produced consistent DC support flags; C09 got devices without DC whose register 0x0008 nevertheless has the enhanced-sync or the 64-bit flag set",
    "C11-4": "missed at first: a tolerated unanswered datagram (counter rewritten to 0) was only required not to yield data; C11 now requires the result of the operation - for the transitions including the sync manager / FMMU registers programmed - to equal the healthy one",
    "C16-3": "missed at first: one perturbation per reply; C16 got the pair family 'segment data length 0..=8 x unused-bytes field 0..=7' for last and non-last segments",
    "C10-3": "missed at first: every fall-back in the simulator was driven by the device's own status reads, so a member that is no longer polled never fell back, and a success assembled from reports of different rounds looked legitimate. C10 got a fall-back that happens two datagrams later whoever is addressed, a fall-back after one read, and the oracle 'the last status reads before the call returned are one report of the requested state per member'",
    "C10-4": "missed by C10 at first (C07 caught it: its cycle harness checks the state list for every frame size); C10 now runs C07's cycle harness for groups of 2, 5 and 8 devices with frames carrying 2, 3 or all status reads and judges the state-list clauses",
    "C15-4": "missed at first: the stale-mailbox case used equal mailbox sizes, and the simulated CoE server overwrote a full send mailbox with the next reply; now both mailbox size orders are covered and replies are queued until the master has read the mailbox to its last byte",
    "C17-3": "missed at first: the simulator left the receive-time registers of closed ports at zero; now they can hold left-over times from before the entry time (1000 ns / 2^30 ns per port number), with and without the 32-bit wrap",
    "C03-1": "at first caught only by C06 (E2's receive operation is atomic, so the RxBusy window does not exist there); C03 got the E1 capacity harnesses c03-e1-* (expiry / drop at every scheduling point, capacity clause only)",
    "C06-2": "an early run seemed to catch it, but the two signatures printed were symptoms of the known released-while-Tx window that also appear on the unchanged tree once the search gets that deep (the load-dependent false alarm of DESIGN.md 6.4); the seed matrix exposed that it was in fact missed. C06 got c06-txdead-* (stalled TX task) and c06-oversize-response-* (response rejected after the slot was claimed), where the change makes the request hang",
    "C01-2": "C01's quantifier excludes deadlines, so C01 itself cannot see a defect that needs a timeout; missed by the first C06 quick tier too; C06 got the harnesses c06-2app-N1-A-expires-{none,count1} (request A never answered and expiring while request B competes for the same slot)",
    "C05-1": "missed at first; C05 now reads the awaited index from the buffer bytes, has an 'oversize-frame-accepted' oracle, compares raw slot memory and includes padded lengths <= 130",
    "C05-2": "missed at first; same strengthening as C05-1 (awaited index read from the buffer, raw memory comparison)",
    "C08-1": "missed at first; C08's shape grammar got two sync managers of one direction that both end inside a byte ([[4],[4]], [[3],[12]]) and a representative pair with them",
    "C08-2": "caught by C07 from the start (the property it really breaks at cycle level); C08 additionally got the 44-byte-frame variant of pairs/triples so that the image is split over several LRW frames",
    "C09-2": "missed at first; the simulator now leaves the DC register block 0x0900..0x09FF unserviced on devices without DC support",
    "C10-1": "missed at first; C10 got frame size 44 (multi-frame status polls) and a timing bound taken from the healthy baseline",
    "C14-1": "missed at first; C14 got the short-range family (every length 0..=64 at the first/last words)",
    "C16-1": "missed at first; C16 got reply mailboxes of 6, 8, 12 and 13 bytes",
    "C20-1": "missed by the first C20 (no deadline ever fired); C20 got the 'late' harnesses in which a frame in flight may be held longer than the PDU timeout. C06 caught it from the start",
    "C20-2": "missed by the first C20 (two groups only); C20 now has three groups. C08 caught it from the start",
}
PORTED = {
    "C17-1": "the agent's worktree predated fix be506cc7; the one-line essence (search the parents from the front instead of from the back) was re-applied to the fixed function",
    "C18-1": "the agent's worktree predated fix 6f26b374 (checked_add); the change (align before adding the delay) was re-applied on top of it",
    "C19-1": "the agent's worktree predated fix cf974800; same two-line move re-applied",
}
NOTES = {
    "C12-4": "not caught, and deliberately not chased: `DefaultMailbox::has_mailbox()` is a derived predicate without an independent specification (the seeding agent itself notes that which parenthesisation is intended is arguable); the two formulas differ only for an EEPROM whose protocol word is zero while its send mailbox size is not. C12 compares the mailbox settings the EEPROM encodes field by field (offsets, sizes, protocols), on which the change has no effect",
    "C20-4": "not caught by C20, by construction: the change misdirects the second LRW of a split cycle whether or not other tasks run, so a task alone and the task among others misbehave identically and C20's differential oracle (same result as alone, same device state as one by one) sees no difference. It is a defect of C07/C08's clauses and is caught by C08 (outputs land elsewhere) at once",
    "C17-1": "after fix be506cc7 (junctions whose downstream ports are all taken are skipped) the agent's demonstration topology (two forks in series, demo.agent-original.diff) no longer distinguishes a front-to-back from a back-to-front search; demo.diff is a demonstration written afterwards on the tree C17's check reported (a fork nested inside the first branch of another fork)",
    "C16-2": "the demo's control test `c16_segmented_upload_well_behaved` encodes the segment layout the code expected before fix ad310639 and fails on HEAD with or without the change; the demonstration is `c16_segmented_upload_sends_more_than_announced`",
}


def section(text, pat):
    m = re.search(r"^#+ .*(" + pat + r").*$", text, re.I | re.M)
    if not m:
        return ""
    rest = text[m.end():]
    n = re.search(r"^#+ ", rest, re.M)
    body = rest[: n.start()] if n else rest
    return re.sub(r"\s+", " ", body).strip()


def main():
    head = subprocess.run(["git", "-C", "/repo", "rev-parse", "--short", "HEAD"], capture_output=True, text=True).stdout.strip()
    for d in sorted(glob.glob(os.path.join(ROOT, "C*-*"))):
        name = os.path.basename(d)
        notes = open(os.path.join(d, "notes.md")).read() if os.path.exists(os.path.join(d, "notes.md")) else ""
        title = notes.splitlines()[0].lstrip("# ").strip() if notes else name
        meta = {
            "seed": name,
            "breaks_property": name.split("-")[0],
            "title": title,
            "author": "independent sub-agent that was given only the property text and a scratch worktree of /repo (nothing from /verif)",
            "what_it_needs_to_manifest": section(notes, "needs|manifest")[:1800],
            "why_existing_tests_miss_it": section(notes, "existing tests|tests miss|suite")[:1200],
            "files": {"change": "patch.diff", "demonstration": "demo.diff", "notes": "notes.md"},
            "applies_to_repo_head": head,
        }
        vf = os.path.join(d, "validation.json")
        if os.path.exists(vf):
            v = json.load(open(vf))
            meta["what_was_run_to_confirm_it"] = {
                "demonstration": v.get("demo_cmd"),
                "demonstration_exit_without_change": v.get("demo_rc_without_change"),
                "demonstration_exit_with_change": v.get("demo_rc_with_change"),
                "repository_suite_with_change": "cargo nextest run --workspace --no-fail-fast --offline --retries 12 --test-threads 4 (in a scratch worktree)",
                "repository_suite_exit": v.get("suite_rc_with_change"),
                "repository_suite_summary": (v.get("suite_summary") or "").strip(),
            }
        df = os.path.join(d, "detection.json")
        if os.path.exists(df):
            det = json.load(open(df))
            meta["checks_run_against_it"] = det.get("runs", [])
            meta["caught_by"] = [r["check"] for r in det.get("runs", []) if r["exit"] == 1]
        if name in STRENGTHENED:
            meta["check_strengthened_because_of_it"] = STRENGTHENED[name]
        if name in PORTED:
            meta["ported"] = PORTED[name]
        if name in NOTES:
            meta["note"] = NOTES[name]
        json.dump(meta, open(os.path.join(d, "meta.json"), "w"), indent=1)
        print(name, "caught by", meta.get("caught_by"))


if __name__ == "__main__":
    main()
