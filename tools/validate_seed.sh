#!/bin/bash
# usage: tools/validate_seed.sh <seed-dir> <k> <out-dir>
# Confirms in a scratch worktree of /repo HEAD: demo passes without the change, fails with it, and the
# repository's test suite still passes with the change. Copies patch/demo/meta to <out-dir>.
set -u
SD=$1; K=$2; OUT=$3; DEMOFILTER=${4:-}
export RUSTUP_TOOLCHAIN=1.88.0 CARGO_NET_OFFLINE=true
WT=/tmp/val-$(basename $SD)-$K
git -C /repo worktree remove --force $WT 2>/dev/null
git -C /repo worktree add --detach $WT HEAD >/dev/null 2>&1 || { echo "worktree failed"; exit 2; }
cd $WT
git apply $SD/patch$K.diff || { echo "RESULT patch does not apply to HEAD"; git -C /repo worktree remove --force $WT; exit 1; }
git checkout -- . 
git apply $SD/demo$K.diff || { echo "RESULT demo does not apply to HEAD"; git -C /repo worktree remove --force $WT; exit 1; }
TESTS=$(grep -E '^\+.*fn [a-zA-Z0-9_]+\(' $SD/demo$K.diff | grep -B0 -E 'fn ' | sed -E 's/.*fn ([a-zA-Z0-9_]+)\(.*/\1/' | sort -u)
# pick those preceded by #[test]-ish names: try each as a filter
FILTER=$(grep -A3 -E '^\+\s*#\[(tokio::)?test' $SD/demo$K.diff | grep -E 'fn ' | sed -E 's/.*fn ([a-zA-Z0-9_]+)\(.*/\1/' | head -1)
[ -z "$FILTER" ] && FILTER=$(echo "$TESTS" | head -1)
NEWFILE=$(grep -E '^\+\+\+ b/tests/' $SD/demo$K.diff | sed -E 's#^\+\+\+ b/tests/(.*)\.rs#\1#' | head -1)
[ -n "$DEMOFILTER" ] && FILTER=$DEMOFILTER
if [ -n "${DEMOCMD:-}" ]; then CMD="$DEMOCMD"; elif [ -n "$NEWFILE" ] && [ -z "$DEMOFILTER" ]; then CMD="cargo test --offline -p ethercrab --test $NEWFILE"; else CMD="cargo test --offline -p ethercrab --lib $FILTER"; fi
echo "demo command: $CMD"
$CMD > $WT/demo_without.txt 2>&1; RC0=$?
git apply $SD/patch$K.diff
$CMD > $WT/demo_with.txt 2>&1; RC1=$?
echo "demo without change rc=$RC0 ; with change rc=$RC1"
# suite with the change only (remove demo)
git checkout -- . ; git clean -fdq -- tests src 2>/dev/null
git apply $SD/patch$K.diff
cargo nextest run --workspace --no-fail-fast --offline --retries 12 --test-threads 6 > $WT/suite.txt 2>&1; RCS=$?
SUM=$(grep -E "Summary|tests run" $WT/suite.txt | tail -1)
FAILED=$(sed -n '/Summary \[/,$p' $WT/suite.txt | grep -E "^\s+(FAIL|TIMEOUT|SIGABRT|SIGSEGV|ABORT)" | sed -E 's/.*\] +//' | awk '{print $NF}' | sort -u | tr '\n' ' ')
[ $RCS -ne 0 ] && [ -z "$FAILED" ] && FAILED="unparsed-failure"
# a failure that is only the known timing-sensitive set (fails on the unchanged tree under load too) does not count
REAL=$(echo "$FAILED" | tr ' ' '\n' | grep -v -E "replay_|large_group_frame_split|^$" | tr '\n' ' ')
if [ $RCS -ne 0 ] && [ -z "$REAL" ]; then echo "suite failures are timing-only: $FAILED"; RCS=0; SUM="$SUM (timing-only failures: $FAILED)"; fi
echo "suite with change rc=$RCS : $SUM"
mkdir -p $OUT
cp $SD/patch$K.diff $OUT/patch.diff; cp $SD/demo$K.diff $OUT/demo.diff; cp $SD/notes$K.md $OUT/notes.md 2>/dev/null
sed -n '/Summary \[/,$p' $WT/suite.txt | head -30 > $OUT/suite_summary.txt
tail -15 $WT/demo_with.txt > $OUT/demo_with_change.txt; tail -5 $WT/demo_without.txt > $OUT/demo_without_change.txt
echo "{\"demo_cmd\": \"$CMD\", \"demo_rc_without_change\": $RC0, \"demo_rc_with_change\": $RC1, \"suite_rc_with_change\": $RCS, \"suite_summary\": \"$SUM\"}" > $OUT/validation.json
cd /; git -C /repo worktree remove --force $WT
if [ $RC0 -eq 0 ] && [ $RC1 -ne 0 ] && [ $RCS -eq 0 ]; then echo "RESULT VALID"; else echo "RESULT INVALID"; fi
