#!/usr/bin/env python3
"""Generate /verif/MANIFEST.json from the table below (single source of truth)."""
import json, os, subprocess

ROOT = os.path.dirname(os.path.dirname(os.path.abspath(__file__)))

E1_NOTE = ("Trusted base: the harness (coroutine scheduler, wire model, monitors) and the verif hooks that place a "
           "scheduling point before every shared-state access. Sequentially consistent interleavings only (tasks are "
           "serialised on one OS thread); ethercrab built without its std feature so that timers come from the virtual clock.")

CHECKS = {
    "C01": dict(
        engine="E1 sched", category="model_checking", design_ref="DESIGN.md section 5 C01, section 3.2",
        technique="stateless model checking of the real PDU loop: exhaustive enumeration of task interleavings (scheduling point before every shared-state access) and response arrival orders under iterative preemption/deviation bounding",
        text="Every schedule of 2-3 application tasks, the transmit task and the receive task within the completed preemption bound (2 quick, 3 thorough on the smallest harness) is executed on the real crate; each request must complete with exactly its own response bytes/working counters and every held response view is re-read after every step of every task.",
        note=E1_NOTE),
    "C02": dict(
        engine="E1 sched", category="model_checking", design_ref="DESIGN.md section 5 C02, section 3.2",
        technique="stateless model checking of the real PDU loop with an ownership-token and lifecycle-edge monitor evaluated at every step; send outcomes and duplicate responses as bounded environment deviations",
        text="Within the completed bound no execution has two parties inside one frame buffer, no buffer access by a task that does not hold the slot, no allocation of a slot that is still held and no status change outside the documented lifecycle.",
        note=E1_NOTE),
    "C06": dict(
        engine="E1 sched", category="model_checking", design_ref="DESIGN.md section 5 C06, section 3.2",
        technique="stateless model checking of the real PDU loop under a virtual clock: deadline expiry, response loss, oversize responses and abandonment of the awaiting future enumerated as bounded environment deviations at every scheduling point, all retry policies, with a serviced and with a stalled transmit task",
        text="Never-answered requests resolve to Timeout(Pdu) after exactly 1+retries byte-identical transmissions (on executions where the transmit task serviced the frame before each deadline), a received response wins over the deadline, and expiry/abandonment at any point is judged by its consequences: corrupted/mixed transmissions, wrong data, failures of other requests, panics, slots lost for good.",
        note=E1_NOTE),
}

E2_NOTE = ("Trusted base: the E2 harness (operation alphabet, canonical state key, probe) and the read-only slot snapshot hook. "
           "Histories are sequential (each operation runs to completion); ethercrab built without std, virtual clock.")

CHECKS.update({
    "C03": dict(
        engine="E2 hist + E1 sched", category="model_checking", design_ref="DESIGN.md section 5 C03, section 3.3, section 0.3",
        technique="explicit-state breadth-first search over operation histories of the real PDU loop with canonical-state deduplication; drain-and-reallocate probe evaluated after every transition; plus stateless deviation-bounded DFS (controlled scheduler) over expiry / drop of the future at every scheduling point inside send and receive, capacity clause only",
        text="In every state reachable within the depth bound (N=1 depth 16, N=2 depth 12, N=4 depth 9 quick) dropping all handles makes exactly N frames allocatable again, allocation only fails when N handles are live, and dropped created frames free their slot; every transition is executed on the real code.",
        note=E2_NOTE),
    "C04": dict(
        engine="E4 enum", category="exploration", design_ref="DESIGN.md section 5 C04, section 3.5",
        technique="bounded-exhaustive enumeration of datagram push programs x every frame size, executed on the real builders and transmit path, compared byte for byte with an independent frame encoder",
        text="Every push program of depth <= 2 (depth 3 for the small sizes) over the stated length/override/command alphabet into frames of every size in the stated set is transmitted by the real code and must equal the independent encoding; refused and cut pushes must be reported as such.",
        note="Trusted base: the reference encoder in /verif/mc/src/checks/c04.rs and the crate-private builder wrappers (verif feature). The alphabet is structured (boundary lengths relative to remaining room), not all lengths."),
    "C05": dict(
        engine="E2 hist + input alphabet", category="model_checking", design_ref="DESIGN.md section 5 C05",
        technique="explicit-state search of reachable PDU-loop states (real code) x exhaustive structured frame alphabet (every truncation, every header byte value, length fields 0..=2047, index 0..=255) delivered to the real receive path in every state",
        text="For every reachable state within the depth bound and every frame of the alphabet: no panic; non-EtherCAT/own-source frames ignored; a frame is accepted only into the one slot awaiting exactly that index; every other slot, and on rejection every slot except the matching awaiting one, is byte-identical before and after.",
        note=E2_NOTE + " 'Any bytes' is decided for the structured alphabet, not all byte strings."),
})

SIM_NOTE = ("Trusted base: the segment simulator /verif/mc/src/sim.rs (ESC register file, SII, AL state machine, FMMU/SM mapping, mailbox/CoE server, DC latch model; written from the datasheet semantics, uses no ethercrab type), "
            "the EEPROM image generator and the executor with virtual time (10 us per frame). Real hardware may behave differently where the datasheet leaves freedom.")

CHECKS.update({
    "C07": dict(
        engine="E3 net + E4 enum", category="exploration", design_ref="DESIGN.md section 5 C07",
        technique="bounded-exhaustive enumeration of group layouts x frame sizes x cycle variants; each cycle executed by the real tx_rx* code against the segment simulator; oracle = the simulator's wire-level datagram log and device memories",
        text="For every image length 0..=L, every input/output split over 1..=D SubDevices, every frame size of the stated set and the plain / system-time-sync (with and without reference) / DC variants: LRW ranges tile the logical window without gap or overlap, each frame fits, exactly one leading FRMW on DC variants whose answer is the reported time, inputs equal device input memory, outputs reach device output memory and stay intact locally, wkc is the LRW sum, one state per SubDevice in order, frame count within the non-reimplementing budget, and the cycle terminates (spin hangs are caught by a wall-clock deadline per case).",
        note=SIM_NOTE),
    "C09": dict(
        engine="E3 net + E4 enum", category="exploration", design_ref="DESIGN.md section 5 C09",
        technique="bounded-exhaustive enumeration of simulated chains (device counts, stale station addresses, SII read sizes, feature mixes, group filters); each case runs the real MainDevice::init against the segment simulator",
        text="init reports exactly n devices, device i gets 0x1000+i both in its register and in the SubDevice record, identity/name/alias/DC capability/upstream neighbour come from that device, every device sits in exactly the chosen group, all are in PRE-OP; over-capacity and rejecting filters give errors, not panics; empty network gives empty groups.",
        note=SIM_NOTE),
})

CHECKS.update({
    "C10": dict(
        engine="E3 net", category="fault_enumeration", design_ref="DESIGN.md section 5 C10",
        technique="exhaustive enumeration of per-device AL-state-machine scripts (accept after k polls, refuse, stall, fall back) x transitions x group splits on the segment simulator, plus every vector of reported states for the summary predicates; each case runs the real transition / tx_rx code",
        text="A transition returns Ok only if every member reported the target state when checked and no member script keeps it out; refusing/stalling members give an error within the transition timeout (relative to the healthy call); state requests reach every member and no non-member; the cycle's state list and all_op/single-state/is-in-state summaries equal reference predicates over the reported vector.",
        note=SIM_NOTE),
    "C11": dict(
        engine="E3 net", category="fault_enumeration", design_ref="DESIGN.md section 5 C11",
        technique="exhaustive fault enumeration on the segment simulator: expected x serviced working counters for the builder methods; device drop-out after every datagram position and counter rewrite at every datagram position of every listed entry point",
        text="Builder methods return data iff expected == received counter and otherwise WorkingCounter{expected, received} with the true numbers; no listed operation returns Ok for a device that stopped answering at any point; a wrong counter on the datagram that carries the result is always a WorkingCounter error; no panics.",
        note=SIM_NOTE),
})

MEM_NOTE = ("Trusted base: the in-memory EepromDataProvider (/verif/mc/src/memeeprom.rs) driving the crate's own reader/parser through the verif wrappers, "
            "the independent EEPROM image generator / CRC (/verif/mc/src/eeprom.rs), and for the device path the segment simulator's SII interface.")

CHECKS.update({
    "C12": dict(
        engine="E4 enum (+E3 device path)", category="exploration", design_ref="DESIGN.md section 5 C12",
        technique="bounded-exhaustive enumeration: every (start word, length) range over tagged images x both chunk sizes; device descriptions enumerated from a grammar, encoded by an independent generator and parsed by the crate; every legal size word; a slice through the real device path on the simulator",
        text="Raw and typed reads return exactly the stored bytes for every start word and length 0..=40 (odd and even), never more than requested; identity, name, description, mailbox, general, sync managers, FMMU usage, FMMU_EX, PDOs with bit lengths, strings and size equal the description for every enumerated well-formed image, in-memory and through init on a simulated device (4/8-byte SII, busy polls).",
        note=MEM_NOTE),
    "C13": dict(
        engine="E4 enum (+E3 device path), two build flavours", category="exploration", design_ref="DESIGN.md section 5 C13",
        technique="exhaustive enumeration of a structured adversarial image alphabet (truncations, boundary category lengths at every chain position, wrap-around chains, single-word boundary replacements, capacity overruns) x every EEPROM-derived query with an access budget, plus init of a simulated device per seed; executed with and without overflow checks",
        text="Every query and init + into_safe_op ends with a value, 'absent' or an error within 2 x 65536 + 4096 device accesses, with no panic, in the overflow-checked and in the plain release flavour.",
        note=MEM_NOTE + " 'Any contents' is decided for the structured alphabet only."),
    "C14": dict(
        engine="E4 enum (+E3 device path)", category="exploration", design_ref="DESIGN.md section 5 C14",
        technique="exhaustive enumeration of all 65536 alias values x 8 header images with whole-image comparison against an independent CRC-8 reference; generic writes of every length 0..=64 at boundary word addresses; fault enumeration of SII command errors 0..=25, busy polls and busy-forever on the simulated device",
        text="Setting an alias changes exactly word 4 and word 7 (CRC-8 of the new first 14 bytes, high byte 0) and the alias read back is the new one; generic writes store exactly the bytes (odd tail zero padded) in exactly the words of the range; at most 21 attempts per word; a word that cannot be written and a device that stays busy are errors, not silent success.",
        note=MEM_NOTE),
})

CHECKS.update({
    "C15": dict(
        engine="E3 net + E4 enum", category="exploration", design_ref="DESIGN.md section 5 C15",
        technique="bounded-exhaustive enumeration of object sizes x mailbox sizes x upload modes (expedited, normal, every segment-length pattern) and of the error replies (every abort code, emergency, foreign object, oversize), each executed by the real SDO code against an independent CoE server on the segment simulator",
        text="Reads return exactly the object's bytes for every size/mailbox/mode combination enumerated; writes deliver exactly the value bytes with the right index, sub-index, size and complete-access flag; array helpers are consistent; aborts carry the device's code, emergencies are emergency errors, foreign responses are invalid-response errors, oversize normal/segmented objects are too-long; mailbox counters cycle 1..7.",
        note=SIM_NOTE + " The CoE server (/verif/mc/src/coe.rs) is written from ETG.1000.6."),
    "C16": dict(
        engine="E3 net + E4 enum, two build flavours", category="exploration", design_ref="DESIGN.md section 5 C16",
        technique="exhaustive enumeration of single-field perturbations (every truncation, length fields, every value of type/counter and command bytes, all CoE services, index/size boundaries) of every step of every SDO/SDO-info exchange plus endless-fragment scripts, executed by the real code against the scripted CoE server with a frame/poll/virtual-time horizon, with and without overflow checks",
        text="Every scripted reply ends the request with a value or an error inside the horizon, without panic; every byte of a returned value occurs in what the device placed in its mailbox window; nothing accumulates beyond the fixed buffer.",
        note=SIM_NOTE + " 'Whatever bytes' is decided for the structured alphabet only; out-of-bounds reads are observed indirectly through tagged/poisoned mailbox contents."),
})

CHECKS.update({
    "C08": dict(
        engine="E3 net + E4 enum", category="exploration", design_ref="DESIGN.md section 5 C08",
        technique="bounded-exhaustive enumeration of device shapes from a grammar (sync manager / PDO layouts x EEPROM or CoE configuration x FMMU_EX x oversampling) and of small networks split over 1..=3 groups; end-to-end oracle: tagged patterns through one real tx_rx cycle compared with the simulated devices' process memory, plus structural clauses from the FMMU registers programmed into the devices",
        text="After into_safe_op every device's windows have the byte length its PDO configuration needs, outputs written by the application arrive exactly at that device's sync manager windows and nowhere else, its input memory appears exactly in its input window, logical windows are pairwise disjoint with inputs before outputs per group, and a layout that does not fit the declared capacity is PdiTooLong.",
        note=SIM_NOTE),
    "C18": dict(
        engine="E3 net + E4 enum, two build flavours", category="exploration", design_ref="DESIGN.md section 5 C18",
        technique="exhaustive enumeration of DC support x DcSync assignments for groups of 1..=3 devices and of a boundary alphabet of periods, delays, shifts and reference times; oracle recomputes start time / offset / wait in 128-bit arithmetic from the simulator's register write log; with and without overflow checks",
        text="Only DC-capable devices that asked for it are written; start time is the multiple of the period in (ref+delay-period, ref+delay]; cycle and activation registers match the mode; out-of-range periods/delays and a missing reference are errors; per cycle offset = t mod p and wait = (p - offset) + shift for every listed 64-bit time, without panic.",
        note=SIM_NOTE),
})

CHECKS.update({
    "C17": dict(
        engine="E3 net + E4 enum, two build flavours", category="exploration", design_ref="DESIGN.md section 5 C17",
        technique="exhaustive enumeration of all rooted port-labelled trees up to 5 nodes (6 thorough) x DC masks x clock widths x latch instants, port receive times produced by a physical delay model of the tree; init executed on the simulator and the programmed delay/offset registers compared with the model; exhaustive enumeration of inconsistent open-port/port-time reports for the no-panic clause",
        text="On every enumerated tree the upstream neighbour is the true one, delays of DC devices never decrease in processing order, offsets equal master time minus latched receive time and the first DC device is the reference; on chains the delay equals the true one-way delay; inconsistent reports give errors, never panics.",
        note=SIM_NOTE + " Physical model: DESIGN.md appendix C/E."),
})

CHECKS.update({
    "C20": dict(
        engine="E3 net + explorer", category="model_checking", design_ref="DESIGN.md section 5 C20",
        technique="stateless deviation-bounded DFS over task schedules of the real stack: 2..=4 cooperative tasks (two groups' process-data cycles, register read, status, SDO read, SDO write) share one MainDevice with 2/4/16 frame slots; every ready-task poll and every in-flight frame delivery is an explorer choice; each task's result is compared with the task alone, device effects with the tasks run one by one; distinct wire schedules reported",
        text="With any explored await-level interleaving and frame delivery order, each concurrent task returns exactly what it returns alone, the devices end in the state the tasks produce one by one, all tasks finish, and no response is rejected.",
        note=SIM_NOTE),
})

CHECKS.update({
    "C19": dict(
        engine="E4 enum", category="exploration", design_ref="DESIGN.md section 5 C19",
        technique="exhaustive enumeration of a layout grammar (1472 generated struct/enum definitions compiled with the working tree's derive) x per-type value products and buffer sets (complete for types <= 2 bytes); oracle: independent reference construction by declared bit position generated from the declaration",
        text="For every generated layout: pack places every field at its declared bit position with undeclared bits zero, unpack of any buffer of the packed length (and longer) recovers the fields from those positions, unpack(pack(v)) == v, undefined enum values and short buffers are errors (InvalidValue / ReadBufferTooShort) and never panic, pack_to_slice refuses every short destination without writing.",
        note="The generated crates live in mc/wiregen (regenerate with tools/gen_wire_types.py); they are rebuilt whenever /repo/ethercrab-wire* changes."),
})

NOT_YET = {
}

def main():
    props = [json.loads(l) for l in open(os.path.join(ROOT, "properties.jsonl"))]
    ids = [p["id"] for p in props]
    checks = []
    for pid in ids:
        if pid not in CHECKS:
            continue
        c = CHECKS[pid]
        checks.append({
            "property_id": pid,
            "quick_cmd": f"./check {pid} --tier quick",
            "thorough_cmd": f"./check {pid} --tier thorough",
            "evidence_file": f"/verif/evidence/{pid}.json",
            "replay_cmd_template": "./check replay {path}",
            "engine": c["engine"],
            "level_claimed": {"category": c["category"], "text": c["text"], "design_ref": c["design_ref"]},
            "level_note": c["note"],
            "technique": c["technique"],
        })
    na = []
    for pid in ids:
        if pid not in CHECKS:
            na.append({"property_id": pid, "reason": NOT_YET.get(pid, "check not built yet in this round of work (planned engine in DESIGN.md section 5); nothing is claimed for it")})
    try:
        commits = subprocess.check_output(["git", "-C", "/repo", "log", "--format=%h %s", "b58eb77f..HEAD"], text=True).splitlines()
    except Exception:
        commits = []
    hook_commits = [c.split()[0] for c in commits if "verif hooks" in c]
    m = {
        "version": 1,
        "setup_cmd": "./setup.sh",
        "hooks": {
            "guard": "cargo feature `verif` of the ethercrab crate (off by default)",
            "enable": "the harness crate /verif/mc depends on ethercrab by path (/repo) with default-features = false, features = [\"verif\"]; every ./check invocation runs cargo build, which recompiles ethercrab from /repo's working tree",
            "baseline_off_cmd": "cd /repo && RUSTUP_TOOLCHAIN=1.88.0 cargo nextest run --workspace --no-fail-fast --tool-config-file pb:/w/lib/nextest.toml --profile pb --test-threads 8 --offline || (cd /repo && RUSTUP_TOOLCHAIN=1.88.0 cargo test --workspace --no-fail-fast --offline)",
            "source_commits": hook_commits,
            "add_only": True,
        },
        "engines": [
            {"name": "E1 sched", "path": "/verif/mc/src/e1.rs", "serves_properties": [p for p in ["C01", "C02", "C03", "C06"] if p in CHECKS],
             "kind_free_text": "controlled scheduler (stackful coroutines, one scheduling point before every shared-state access) + deviation-bounded stateless DFS over choice vectors (/verif/mc/src/core.rs) on the real PDU loop"},
            {"name": "E2 hist", "path": "/verif/mc/src/e2.rs", "serves_properties": [p for p in ["C03", "C05"] if p in CHECKS],
             "kind_free_text": "explicit-state BFS over operation histories; a state is the history that reaches it, every expansion rebuilds a fresh storage and replays the history on the real code; canonical state hashing"},
            {"name": "E3 net", "path": "/verif/mc/src/net.rs", "serves_properties": [p for p in ["C07","C08","C09","C10","C11","C12","C13","C14","C15","C16","C17","C18","C20"] if p in CHECKS],
             "kind_free_text": "the full MainDevice stack closed by a simulated EtherCAT segment (sim.rs, coe.rs, eeprom.rs) under virtual time; every environment answer / fault is an enumerated input or an explorer choice"},
            {"name": "E4 enum", "path": "/verif/mc/src/checks", "serves_properties": [p for p in ["C04", "C07", "C12", "C13", "C18", "C19"] if p in CHECKS],
             "kind_free_text": "bounded-exhaustive enumeration of a stated finite input/program domain, each case executed on the real code and compared with an independent reference"},
        ],
        "checks": checks,
        "not_applicable": na,
        "notes": "All checks are `./check <ID> [--tier quick|thorough]` (cwd /verif). Exit 0 held (KNOWN-FINDING lines for entries of known_findings.txt), 1 violation (VIOLATION line + replay file), 2 machinery error. See DESIGN.md.",
    }
    with open(os.path.join(ROOT, "MANIFEST.json"), "w") as f:
        json.dump(m, f, indent=1)
        f.write("\n")
    print("wrote MANIFEST.json with", len(checks), "checks,", len(na), "not_applicable")

if __name__ == "__main__":
    main()
