#!/usr/bin/env python3
"""One-off: merge the as-built parts into DESIGN.md (kept for the record of how the document was put together)."""
import re,os
R='/verif/'
d=open(R+'DESIGN.md').read()
head=open(R+'tools/design_asbuilt_head.md').read()
s6=open(R+'tools/design_sec6.md').read()
s7=open(R+'tools/design_sec7_11.md').read()
matrix=open(R+'seeded/MATRIX.md').read()
tbl='\n'.join(l for l in matrix.splitlines() if l.startswith('|'))
s7=s7.replace('@@MATRIX@@',tbl)
# body: from "## 1. Stance" up to "## 6."
a=d.index('## 1. Stance')
b=d.index('## 6. Known findings, fixes, false alarms')
c=d.index('## Appendix A')
body=d[a:b]
note='''## 5. Per-property plan

> This section is the plan as written before the code. The checks follow it in
> structure; bounds, alphabets and counts as built are in section 0.3 and in each
> evidence file's `rule` string. "Expect" paragraphs were predictions: what was
> actually found is in section 6. "Mutants" paragraphs name self-chosen mutants that
> were *not* built; section 9 describes the seeded changes used instead.
'''
body=body.replace('## 5. Per-property plan\n',note,1)
out=head+'\n--------------------------------------------------------------------------------\n\n'+body+s6+'\n--------------------------------------------------------------------------------\n\n'+s7+'\n--------------------------------------------------------------------------------\n\n'+d[c:]
open(R+'DESIGN.md','w').write(out)
print(len(out.splitlines()),'lines')
