#!/bin/bash
# usage: tools/try_seed.sh <patch.diff> <ID> [<ID>...]   — apply a seeded change to /repo, run the quick checks, undo it
set -u
P=$1; shift
git -C /repo status --short | grep -q . && { echo "/repo not clean"; exit 2; }
git -C /repo apply "$P" || { echo "patch does not apply"; exit 2; }
for id in "$@"; do
  echo "=== $id with $(basename $(dirname $P))/$(basename $P)"
  /verif/check $id --tier quick 2>&1 | grep -E "VIOLATION|signature:|KNOWN-FINDING|MACHINERY|quick:" | cut -c1-260 | grep -v "^KNOWN" 
  echo "exit=${PIPESTATUS[0]}"
done
git -C /repo checkout -- .
git -C /repo status --short
