#!/usr/bin/env python3
"""Generates /verif/mc/wiregen/src/lib.rs: the program domain of check C19.

Every struct/enum definition of a bounded layout grammar is written out with the ethercrab-wire
derives, together with an *independent* reference for it:

  build_X(w)  constructs the value directly (plain Rust field construction, no derive involved)
              from the bit pattern `w` (little-endian bit numbering, bit 0 = lsb of byte 0) using
              bit positions computed here from the declared widths and skips;
  canon_X(w)  the bit pattern a correct packer must produce for build_X(w): undeclared bits zero,
              enum alternatives mapped to the primary discriminant, bools to 0/1.

The generator is deterministic (no randomness): the domain is enumerated, see DESIGN.md C19.
"""
import itertools, os, sys

OUT = os.path.join(os.path.dirname(os.path.abspath(__file__)), "..", "mc", "wiregen", "src", "lib.rs")

PRIM_BITS = {"u8": 8, "u16": 16, "u32": 32, "u64": 64, "i8": 8, "i16": 16, "i32": 32, "i64": 64}

types = []       # all definitions in emission order
by_name = {}


def mask(b):
    return (1 << b) - 1


class Enum:
    kind = "enum"

    def __init__(self, name, repr_, variants, tag, catch_all=False):
        """variants: list of (vname, explicit or None, alternatives, is_default)."""
        self.name, self.repr, self.tag, self.catch_all = name, repr_, tag, catch_all
        self.bits = PRIM_BITS[repr_]
        self.signed = repr_.startswith("i")
        self.variants = []
        prev = None
        for (vn, explicit, alts, dflt) in variants:
            # Rust's rule: first implicit discriminant is 0, otherwise previous + 1
            d = explicit if explicit is not None else (0 if prev is None else prev + 1)
            prev = d
            self.variants.append(dict(name=vn, disc=d, explicit=explicit is not None, alts=alts, default=dflt))
        self.default = next((v for v in self.variants if v["default"]), None)
        types.append(self)
        by_name[name] = self

    def raw(self, d):
        return d & mask(self.bits)

    def interesting(self):
        vals = set()
        for v in self.variants:
            vals.add(self.raw(v["disc"]))
            for a in v["alts"]:
                vals.add(self.raw(a))
        defined = set(vals)
        # undefined neighbours and extremes
        for c in [0, 1, 2, 5, 6, 8, 0x7f, 0x80, mask(self.bits), mask(self.bits) - 1, 1 << (self.bits - 1)]:
            vals.add(c & mask(self.bits))
        return sorted(vals), defined

    def emit(self, o):
        derives = "Debug, PartialEq, Clone, Copy, ethercrab_wire::EtherCrabWireReadWrite"
        if self.default:
            derives += ", Default"
        o.append(f"#[derive({derives})]")
        o.append(f"#[repr({self.repr})]")
        o.append(f"pub enum {self.name} {{")
        for v in self.variants:
            if v["alts"]:
                o.append(f"    #[wire(alternatives = [{', '.join(str(a) for a in v['alts'])}])]")
            if v["default"]:
                o.append("    #[default]")
            if v["explicit"]:
                o.append(f"    {v['name']} = {v['disc']},")
            else:
                o.append(f"    {v['name']},")
        if self.catch_all:
            o.append("    #[wire(catch_all)]")
            o.append(f"    Unknown({self.repr}),")
        o.append("}")
        # reference decode: raw (zero-extended field bits) -> value
        conv = f"(w as u{self.bits}) as {self.repr}"
        o.append(f"pub fn build_{self.name}(w: u128) -> Option<{self.name}> {{")
        o.append(f"    let r: {self.repr} = {conv};")
        o.append("    match r {")
        for v in self.variants:
            pats = " | ".join(str(x) for x in [v["disc"]] + v["alts"])
            o.append(f"        {pats} => Some({self.name}::{v['name']}),")
        if self.catch_all:
            o.append(f"        other => Some({self.name}::Unknown(other)),")
        elif self.default:
            o.append(f"        _ => Some({self.name}::{self.default['name']}),")
        else:
            o.append("        _ => None,")
        o.append("    }")
        o.append("}")
        o.append(f"pub fn canon_{self.name}(w: u128) -> Option<u128> {{")
        o.append(f"    let r: {self.repr} = {conv};")
        o.append(f"    let c: {self.repr} = match r {{")
        for v in self.variants:
            pats = " | ".join(str(x) for x in [v["disc"]] + v["alts"])
            o.append(f"        {pats} => {v['disc']},")
        if self.catch_all:
            o.append("        other => other,")
        elif self.default:
            o.append(f"        _ => {self.default['disc']},")
        else:
            o.append("        _ => return None,")
        o.append("    };")
        o.append(f"    Some((c as u{self.bits}) as u128)")
        o.append("}")


class Field:
    def __init__(self, ty, bits=None, pre=0, post=0, attr="bits", skip=False, pre_bytes=False, post_bytes=False):
        """ty: primitive name, 'bool', '[u8; N]', or the name of a generated enum/struct."""
        self.ty, self.pre, self.post, self.attr, self.skip = ty, pre, post, attr, skip
        self.pre_bytes, self.post_bytes = pre_bytes, post_bytes
        if bits is None:
            if ty in PRIM_BITS:
                bits = PRIM_BITS[ty]
            elif ty.startswith("[u8;"):
                bits = 8 * int(ty[4:-1])
            elif ty == "bool":
                bits = 1
            else:
                bits = by_name[ty].bits
        self.bits = bits


class Struct:
    kind = "struct"

    def __init__(self, name, fields, tag, packed=False, width_attr="bits"):
        self.name, self.fields, self.tag, self.packed, self.width_attr = name, fields, tag, packed, width_attr
        pos = 0
        for i, f in enumerate(fields):
            f.name = f"f{i}"
            if f.skip:
                f.start = pos
                continue
            pos += f.pre
            f.start = pos
            pos += f.bits
            pos += f.post
        self.bits = pos
        assert self.bits <= 128, name
        types.append(self)
        by_name[name] = self

    def field_alphabet(self, f):
        b = f.bits
        m = mask(b)
        vals = {0, m, 1, 1 << (b - 1), 0x5555555555555555_5555555555555555 & m, 0xAAAAAAAAAAAAAAAA_AAAAAAAAAAAAAAAA & m}
        if b > 8:
            vals |= {0xFF, m ^ 0xFF, 0x0123456789ABCDEF_0F1E2D3C4B5A6978 & m}
        t = by_name.get(f.ty)
        if t is not None and t.kind == "enum":
            iv, _ = t.interesting()
            vals |= {v & m for v in iv}
        if t is not None and t.kind == "struct":
            for nf in t.fields:
                if nf.skip:
                    continue
                for v in t.field_alphabet(nf)[:6]:
                    vals.add((v << nf.start) & m)
        return sorted(vals)

    def emit(self, o):
        o.append("#[derive(Debug, PartialEq, Clone, ethercrab_wire::EtherCrabWireReadWrite)]")
        if self.packed:
            o.append("#[repr(packed)]")
        if self.width_attr == "bytes" and self.bits % 8 == 0:
            o.append(f"#[wire(bytes = {self.bits // 8})]")
        else:
            o.append(f"#[wire(bits = {self.bits})]")
        o.append(f"pub struct {self.name} {{")
        for f in self.fields:
            if f.skip:
                o.append("    #[wire(skip)]")
                o.append(f"    pub {f.name}: {f.ty},")
                continue
            parts = []
            if f.pre:
                parts.append(f"pre_skip_bytes = {f.pre // 8}" if f.pre_bytes and f.pre % 8 == 0 else f"pre_skip = {f.pre}")
            if f.attr == "bytes" and f.bits % 8 == 0:
                parts.append(f"bytes = {f.bits // 8}")
            elif f.attr == "omit" and f.ty in PRIM_BITS and PRIM_BITS[f.ty] == f.bits:
                pass
            else:
                parts.append(f"bits = {f.bits}")
            if f.post:
                parts.append(f"post_skip_bytes = {f.post // 8}" if f.post_bytes and f.post % 8 == 0 else f"post_skip = {f.post}")
            if parts:
                o.append(f"    #[wire({', '.join(parts)})]")
            o.append(f"    pub {f.name}: {f.ty},")
        o.append("}")
        # reference construction
        o.append(f"pub fn build_{self.name}(w: u128) -> Option<{self.name}> {{")
        o.append(f"    Some({self.name} {{")
        for f in self.fields:
            if f.skip:
                o.append(f"        {f.name}: Default::default(),")
                continue
            raw = f"((w >> {f.start}) & {hex(mask(f.bits))}u128)"
            if f.ty in PRIM_BITS:
                n = PRIM_BITS[f.ty]
                if f.ty.startswith("i"):
                    o.append(f"        {f.name}: ({raw} as u{n}) as {f.ty},")
                else:
                    o.append(f"        {f.name}: {raw} as {f.ty},")
            elif f.ty == "bool":
                o.append(f"        {f.name}: {raw} != 0,")
            elif f.ty.startswith("[u8;"):
                n = int(f.ty[4:-1])
                o.append(f"        {f.name}: {{ let r = {raw}; let mut a = [0u8; {n}]; for (k, x) in a.iter_mut().enumerate() {{ *x = (r >> (8 * k)) as u8; }} a }},")
            else:
                o.append(f"        {f.name}: build_{f.ty}({raw})?,")
        o.append("    })")
        o.append("}")
        o.append(f"pub fn canon_{self.name}(w: u128) -> Option<u128> {{")
        o.append("    let mut c = 0u128;")
        for f in self.fields:
            if f.skip:
                continue
            raw = f"((w >> {f.start}) & {hex(mask(f.bits))}u128)"
            if f.ty == "bool":
                o.append(f"    c |= (({raw} != 0) as u128) << {f.start};")
            elif f.ty in PRIM_BITS or f.ty.startswith("[u8;"):
                o.append(f"    c |= {raw} << {f.start};")
            else:
                o.append(f"    c |= (canon_{f.ty}({raw})? & {hex(mask(f.bits))}u128) << {f.start};")
        o.append("    Some(c)")
        o.append("}")


# ---------------------------------------------------------------------------------------------
# enums

def gen_enums():
    n = 0
    shapes = []
    for repr_ in ["u8", "u16", "u32", "i8", "i16", "i32"]:
        signed = repr_.startswith("i")
        hi = (1 << (PRIM_BITS[repr_] - 1)) - 1 if signed else mask(PRIM_BITS[repr_])
        lo = -(1 << (PRIM_BITS[repr_] - 1)) if signed else 0
        neg = -2 if signed else 1
        S = [
            ("explicit", [("A", neg, [], False), ("B", 2, [], False), ("C", 7, [], False)], False),
            ("explicit-zero", [("A", 0, [], False), ("B", 1, [], False)], False),
            ("single", [("A", 0, [], False)], False),
            ("extremes", [("A", lo, [], False), ("B", hi, [], False)], False),
            ("implicit-after-explicit", [("A", 0, [], False), ("B", None, [], False), ("C", None, [], False)], False),
            ("implicit-first", [("A", None, [], False), ("B", None, [], False), ("C", None, [], False)], False),
            ("implicit-mid", [("A", 3, [], False), ("B", None, [], False), ("C", 9, [], False), ("D", None, [], False)], False),
            ("alternatives", [("A", 1, [], False), ("B", 2, [3, 4], False), ("C", 7, [], False)], False),
            ("implicit-after-alternatives", [("A", 1, [5, 6], False), ("B", None, [], False)], False),
            ("default", [("A", 1, [], False), ("B", 2, [], True), ("C", 3, [], False)], False),
            ("default+alternatives", [("A", 1, [4], True), ("B", 2, [5, 6], False)], False),
            ("catch_all", [("A", 1, [], False), ("B", 2, [], False)], True),
            ("catch_all+alternatives", [("A", 1, [], False), ("B", 2, [3, 4, 5, 6], False), ("C", 7, [], False)], True),
            ("catch_all-zero", [("A", 0, [], False)], True),
        ]
        for (shape, variants, ca) in S:
            name = f"E{n}"
            n += 1
            tag = f"enum {shape}" + (" signed" if signed else "")
            Enum(name, repr_, variants, tag, catch_all=ca)
            shapes.append((repr_, shape, name))
    return shapes


def find_enum(shapes, repr_, shape):
    return next(nm for (r, s, nm) in shapes if r == repr_ and s == shape)


# ---------------------------------------------------------------------------------------------
# structs

def compositions(total, max_parts):
    def rec(rem, parts):
        if rem == 0:
            yield list(parts)
            return
        if len(parts) == max_parts:
            return
        for p in range(1, rem + 1):
            parts.append(p)
            yield from rec(rem - p, parts)
            parts.pop()
    yield from rec(total, [])


def gen_structs(shapes):
    n = [0]

    def nm():
        n[0] += 1
        return f"S{n[0] - 1}"

    e_zero = find_enum(shapes, "u8", "explicit-zero")        # 0,1        -> needs >= 1 bit
    e_expl = find_enum(shapes, "u8", "explicit")             # 1,2,7      -> needs >= 3 bits
    e_alt = find_enum(shapes, "u8", "alternatives")          # 1..4,7     -> 3 bits
    e_ca = find_enum(shapes, "u8", "catch_all")              # any
    e16 = find_enum(shapes, "u16", "alternatives")
    e16ca = find_enum(shapes, "u16", "catch_all+alternatives")
    e32 = find_enum(shapes, "u32", "default")
    ei8 = find_enum(shapes, "i8", "explicit")

    # nested building blocks
    n3 = Struct(nm(), [Field("bool", 1), Field("u8", 2)], "struct sub-byte-width", width_attr="bits")          # 3 bits
    n5 = Struct(nm(), [Field("u8", 2), Field(e_zero, 1), Field("u8", 2)], "struct sub-byte-width")              # 5 bits
    n8 = Struct(nm(), [Field("u8", 3), Field("u8", 5)], "struct bit-fields")                                     # 1 byte
    n16 = Struct(nm(), [Field("u8", 8, attr="omit"), Field("u8", 3), Field("bool", 1), Field(e_expl, 3, post=1)], "struct nested-building-block")
    n24 = Struct(nm(), [Field("u16", attr="omit"), Field(n8.name, 8)], "struct nested-building-block")

    def bit_type(width, idx):
        # deterministic rotation over the types that may live in a sub-byte slot
        if width == 1:
            return ["bool", "u8", e_zero][idx % 3]
        if width == 2:
            return ["u8", e_zero][idx % 2]
        if width == 3:
            return ["u8", e_expl, n3.name, e_alt][idx % 4]
        if width == 5:
            return ["u8", n5.name, e_expl][idx % 3]
        if width == 8:
            return ["u8", e_ca, n8.name, "i8", ei8][idx % 5]
        return ["u8", e_alt, e_ca][idx % 3]

    # S1: one byte split into <= 4 parts; every single part may be a gap, in both spellings
    k = 0
    for comp in compositions(8, 4):
        gaps = [None] + (list(range(len(comp))) if len(comp) >= 2 else [])
        for g in gaps:
            for spelling in (["pre"] if g is None else ["pre", "post"]):
                fields = []
                pending_pre = 0
                ok = True
                for i, wdt in enumerate(comp):
                    if g is not None and i == g:
                        if spelling == "post" and fields:
                            fields[-1].post += wdt
                        elif i + 1 < len(comp):
                            pending_pre += wdt
                        elif fields:
                            fields[-1].post += wdt
                        else:
                            ok = False
                        continue
                    fields.append(Field(bit_type(wdt, k + i), wdt, pre=pending_pre))
                    pending_pre = 0
                if not ok or not fields:
                    continue
                Struct(nm(), fields, "struct bit-fields" + (" gap" if g is not None else ""))
                k += 1

    # S1n: sub-byte nested structs / enums at every offset of a byte
    for (inner, wdt) in [(n3.name, 3), (n5.name, 5), (e_expl, 3), (e_zero, 1), (e_ca, 7)]:
        for off in range(0, 8 - wdt + 1):
            fields = []
            if off:
                fields.append(Field("u8", off))
            fields.append(Field(inner, wdt))
            rest = 8 - off - wdt
            if rest:
                fields.append(Field("u8", rest))
            Struct(nm(), fields, "struct sub-byte nested/enum at offset")
            # the same with gaps instead of filler fields
            Struct(nm(), [Field(inner, wdt, pre=off, post=rest)], "struct sub-byte nested/enum at offset gap")

    # S2: sequences of whole-byte items
    def items_full():
        return [
            ("u8", lambda: [Field("u8", attr="omit")]),
            ("u16", lambda: [Field("u16", attr="bytes")]),
            ("u32", lambda: [Field("u32", attr="omit")]),
            ("u64", lambda: [Field("u64", attr="bits")]),
            ("i8", lambda: [Field("i8", attr="bits")]),
            ("i16", lambda: [Field("i16", attr="omit")]),
            ("i32", lambda: [Field("i32", attr="bytes")]),
            ("i64", lambda: [Field("i64", attr="omit")]),
            ("arr3", lambda: [Field("[u8; 3]", attr="bytes")]),
            ("enum16", lambda: [Field(e16, attr="bits")]),
            ("enum8ca", lambda: [Field(e_ca, attr="bytes")]),
            ("enum32", lambda: [Field(e32, attr="bytes")]),
            ("nested16", lambda: [Field(n16.name, 16, attr="bytes")]),
            ("bitbyte", lambda: [Field("u8", 3), Field("u8", 5)]),
            ("bits143", lambda: [Field("bool", 1), Field(e_alt, 4), Field("u8", 3)]),
            ("skipbyte", None),
            ("skip12", None),
        ]

    def build_seq(seq, table):
        fields = []
        pending = 0
        pending_bytes = False
        for (iname, mk) in seq:
            if iname == "skipbyte":
                if fields and len(fields) % 2 == 0:
                    fields[-1].post += 8
                    fields[-1].post_bytes = True
                else:
                    pending += 8
                    pending_bytes = True
                continue
            if iname == "skip12":
                # 12 undeclared bits followed by a 4 bit field that restores byte alignment
                fs = [Field("u8", 4, pre=12 + pending)]
                pending = 0
                fields += fs
                continue
            fs = mk()
            if pending:
                fs[0].pre += pending
                fs[0].pre_bytes = pending_bytes
                pending = 0
                pending_bytes = False
            fields += fs
        if pending:
            if not fields:
                return None
            fields[-1].post += pending
            fields[-1].post_bytes = True
        return fields

    full = items_full()
    for L in (1, 2):
        for seq in itertools.product(full, repeat=L):
            if all(s[1] is None for s in seq):
                continue
            fs = build_seq(seq, full)
            if fs is None or sum(f.bits + f.pre + f.post for f in fs) > 128:
                continue
            Struct(nm(), fs, "struct byte-fields", width_attr="bytes" if n[0] % 2 else "bits")
    red = [x for x in full if x[0] in ("u8", "u16", "i32", "arr3", "enum16", "nested16", "bitbyte", "skipbyte")]
    for seq in itertools.product(red, repeat=3):
        if all(s[1] is None for s in seq):
            continue
        fs = build_seq(seq, red)
        if fs is None or sum(f.bits + f.pre + f.post for f in fs) > 128:
            continue
        Struct(nm(), fs, "struct byte-fields", width_attr="bytes" if n[0] % 2 else "bits")

    # S3: many fields
    Struct(nm(), [Field("bool", 1), Field("bool", 1), Field("u8", 2), Field("u8", 2), Field("bool", 1), Field("bool", 1, pre=6),
                  Field("bool", 1), Field("bool", 1), Field("u16", attr="omit"), Field(e_ca, 8), Field("i16"), Field("[u8; 2]", attr="bytes")],
           "struct twelve-fields")
    Struct(nm(), [Field("u8", 1), Field("u8", 1), Field("u8", 1), Field("u8", 1), Field("u8", 1), Field("u8", 1), Field("u8", 1), Field("u8", 1),
                  Field("u32"), Field(e16, 16), Field(n24.name, 24), Field("u8", 4, post=4)], "struct twelve-fields")
    Struct(nm(), [Field("u32"), Field("i8"), Field(n3.name, 3, pre=1), Field("u8", 4), Field("u16"), Field("i32", attr="bytes"), Field("bool", 1, pre=7)],
           "struct mixed")
    Struct(nm(), [Field(n16.name, 16), Field(n16.name, 16), Field(n8.name, 8), Field(n24.name, 24)], "struct nested-only")

    # S4: total widths that are not a whole number of bytes
    Struct(nm(), [Field("bool", 1)], "struct partial-last-byte")
    Struct(nm(), [Field("u8", 3)], "struct partial-last-byte")
    Struct(nm(), [Field("u8", 8, attr="omit"), Field("u8", 4)], "struct partial-last-byte")
    Struct(nm(), [Field("u8", 8, attr="omit"), Field("bool", 1)], "struct partial-last-byte")
    Struct(nm(), [Field("u16"), Field("u8", 2), Field(e_zero, 1)], "struct partial-last-byte")
    Struct(nm(), [Field("u8", 2, pre=3)], "struct partial-last-byte")
    p12 = Struct(nm(), [Field("u8", 4), Field("u8", 8, attr="omit", pre=4)], "struct bit-fields")
    Struct(nm(), [Field(p12.name, 16), Field("u8", 3)], "struct partial-last-byte")

    # S5: #[wire(skip)] fields and repr(packed)
    Struct(nm(), [Field("u32", skip=True), Field("u8", attr="omit"), Field("u16")], "struct skip-field")
    Struct(nm(), [Field("u8", 3), Field("u16", skip=True), Field("u8", 5)], "struct skip-field")
    Struct(nm(), [Field("u16"), Field("bool", skip=True)], "struct skip-field")
    Struct(nm(), [Field("u8", attr="omit"), Field("u32"), Field("u16")], "struct repr-packed", packed=True)
    Struct(nm(), [Field("u8", 3), Field("bool", 1, post=4), Field("u64"), Field("i16")], "struct repr-packed", packed=True)
    Struct(nm(), [Field("u8", attr="omit"), Field(e16, 16), Field("i32")], "struct repr-packed", packed=True)

    # S6: an unsigned integer wider than the field it is declared in
    Struct(nm(), [Field("u16", 8)], "struct wide-int-in-byte-field")
    Struct(nm(), [Field("u16", 4), Field("u8", 4)], "struct wide-int-in-sub-byte-field")
    Struct(nm(), [Field("u8", 5), Field("u32", 3)], "struct wide-int-in-sub-byte-field")
    Struct(nm(), [Field("u8", attr="omit"), Field("u64", 8)], "struct wide-int-in-byte-field")


PARTS = 12
ROOT = os.path.join(os.path.dirname(os.path.abspath(__file__)), "..", "mc", "wiregen")

CORE = """//! GENERATED by /verif/tools/gen_wire_types.py - do not edit.
pub use ethercrab_wire::{EtherCrabWireRead, EtherCrabWireSized, EtherCrabWireWrite, EtherCrabWireWriteSized, WireError};

/// One generated type: the derive's operations and the reference, behind plain function pointers.
pub struct Ops {
    pub name: &'static str,
    pub tag: &'static str,
    pub decl: &'static str,
    pub bits: u32,
    pub packed_len: usize,
    /// (bit start, bit width, interesting raw values) of every declared top-level field
    pub fields: &'static [(u32, u32, &'static [u128])],
    pub build_dbg: fn(u128) -> Option<String>,
    pub canon: fn(u128) -> Option<u128>,
    pub unpack_dbg: fn(&[u8]) -> Result<String, WireError>,
    pub pack: fn(u128) -> Option<Vec<u8>>,
    pub pack_to_slice: fn(u128, &mut [u8]) -> Option<Result<usize, WireError>>,
    pub packed_len_dyn: fn(u128) -> Option<usize>,
    pub roundtrip: fn(u128) -> Option<Result<bool, WireError>>,
}

#[macro_export]
macro_rules! ops {
    ($t:ident, $build:ident, $canon:ident, $bits:expr, $tag:expr, $decl:expr, $fields:expr) => {
        $crate::Ops {
            name: stringify!($t),
            tag: $tag,
            decl: $decl,
            bits: $bits,
            packed_len: <$t as $crate::EtherCrabWireSized>::PACKED_LEN,
            fields: $fields,
            build_dbg: |w| $build(w).map(|v| format!("{:?}", v)),
            canon: $canon,
            unpack_dbg: |b| <$t as $crate::EtherCrabWireRead>::unpack_from_slice(b).map(|v| format!("{:?}", v)),
            pack: |w| $build(w).map(|v| $crate::EtherCrabWireWriteSized::pack(&v).as_ref().to_vec()),
            pack_to_slice: |w, buf| $build(w).map(|v| $crate::EtherCrabWireWrite::pack_to_slice(&v, buf).map(|s| s.len())),
            packed_len_dyn: |w| $build(w).map(|v| $crate::EtherCrabWireWrite::packed_len(&v)),
            roundtrip: |w| {
                let v = $build(w)?;
                let p = $crate::EtherCrabWireWriteSized::pack(&v);
                Some(<$t as $crate::EtherCrabWireRead>::unpack_from_slice(p.as_ref()).map(|back| back == v))
            },
        }
    };
}
"""


def case_line(t):
    decl_lines = []
    t.emit(decl_lines)
    decl = []
    for ln in decl_lines:
        decl.append(ln.strip())
        if ln == "}":
            break
    decl_s = " ".join(decl).replace("\\", "\\\\").replace('"', '\\"')
    if t.kind == "enum":
        iv, _ = t.interesting()
        fields = f"&[(0, {t.bits}, &[{', '.join(hex(v) for v in iv)}])]"
    else:
        fl = []
        for f in t.fields:
            if f.skip:
                continue
            fl.append(f"({f.start}, {f.bits}, &[{', '.join(hex(v) for v in t.field_alphabet(f))}])")
        fields = f"&[{', '.join(fl)}]"
    return f"        wg_core::ops!({t.name}, build_{t.name}, canon_{t.name}, {t.bits}, \"{t.tag}\", \"{decl_s}\", {fields}),"


def write_crate(name, deps, body):
    d = os.path.join(ROOT, name)
    os.makedirs(os.path.join(d, "src"), exist_ok=True)
    dep_lines = "".join(f'{k} = {{ path = "../{k}" }}\n' for k in deps)
    with open(os.path.join(d, "Cargo.toml"), "w") as f:
        f.write(f'[package]\nname = "{name}"\nversion = "0.1.0"\nedition = "2021"\npublish = false\n\n[dependencies]\nethercrab-wire = {{ path = "/repo/ethercrab-wire" }}\n{dep_lines}')
    with open(os.path.join(d, "src", "lib.rs"), "w") as f:
        f.write(body)


def main():
    shapes = gen_enums()
    gen_structs(shapes)
    # shared building blocks (everything another type refers to) go to wg-base
    used = set()
    for t in types:
        if t.kind == "struct":
            for f in t.fields:
                if f.ty in by_name:
                    used.add(f.ty)
    base = [t for t in types if t.kind == "enum" or t.name in used]
    rest = [t for t in types if not (t.kind == "enum" or t.name in used)]
    hdr = "//! GENERATED by /verif/tools/gen_wire_types.py - do not edit. Program domain of check C19.\n#![allow(dead_code, unused_parens, unused_imports)]\n"
    write_crate("wg-core", [], CORE)
    o = [hdr, "use wg_core::*;", ""]
    for t in base:
        t.emit(o)
        o.append("")
    o.append("pub fn cases() -> Vec<wg_core::Ops> {\n    vec![")
    o += [case_line(t) for t in base]
    o.append("    ]\n}")
    write_crate("wg-base", ["wg-core"], "\n".join(o) + "\n")
    for p in range(PARTS):
        o = [hdr, "use wg_core::*;", "use wg_base::*;", ""]
        mine = rest[p::PARTS]
        for t in mine:
            t.emit(o)
            o.append("")
        o.append("pub fn cases() -> Vec<wg_core::Ops> {\n    vec![")
        o += [case_line(t) for t in mine]
        o.append("    ]\n}")
        write_crate(f"wg-p{p}", ["wg-core", "wg-base"], "\n".join(o) + "\n")
    # facade
    o = [hdr, "pub use wg_core::Ops;", "", "pub fn cases() -> Vec<Ops> {", "    let mut v = wg_base::cases();"]
    for p in range(PARTS):
        o.append(f"    v.extend(wg_p{p}::cases());")
    o.append("    v\n}")
    with open(os.path.join(ROOT, "src", "lib.rs"), "w") as f:
        f.write("\n".join(o) + "\n")
    deps = "".join(f'wg-p{p} = {{ path = "wg-p{p}" }}\n' for p in range(PARTS))
    with open(os.path.join(ROOT, "Cargo.toml"), "w") as f:
        f.write(f'[package]\nname = "vx-wiregen"\nversion = "0.1.0"\nedition = "2021"\npublish = false\n\n[dependencies]\nwg-core = {{ path = "wg-core" }}\nwg-base = {{ path = "wg-base" }}\n{deps}')
    ne = sum(1 for t in types if t.kind == "enum")
    print(f"wrote {ROOT}: {ne} enums, {len(types) - ne} structs, {sum(len(t.fields) for t in types if t.kind == 'struct')} fields, {PARTS} parts")


if __name__ == "__main__":
    main()
