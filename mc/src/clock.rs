//! Virtual time: an `embassy-time` driver backed by a thread-local clock that only moves when the
//! harness says so. ethercrab is built without its `std` feature, so every timer it creates is an
//! `embassy_time::Timer` served from here.

use std::cell::{Cell, RefCell};
use std::task::Waker;

struct VClock;

thread_local! {
    static NOW: Cell<u64> = const { Cell::new(0) };
    static QUEUE: RefCell<Vec<(u64, Waker)>> = const { RefCell::new(Vec::new()) };
    /// Number of timers armed since reset (statistics / harness "deadline armed" test).
    static ARMED: Cell<u64> = const { Cell::new(0) };
}

impl embassy_time_driver::Driver for VClock {
    fn now(&self) -> u64 {
        NOW.with(|n| n.get())
    }

    fn schedule_wake(&self, at: u64, waker: &Waker) {
        let now = NOW.with(|n| n.get());
        if at <= now {
            waker.wake_by_ref();
            return;
        }
        ARMED.with(|a| a.set(a.get() + 1));
        QUEUE.with(|q| {
            let mut q = q.borrow_mut();
            // one entry per (deadline, waker) pair is enough
            if !q.iter().any(|(t, w)| *t == at && w.will_wake(waker)) {
                q.push((at, waker.clone()));
            }
        });
    }
}

embassy_time_driver::time_driver_impl!(static DRIVER: VClock = VClock);

/// Ticks are microseconds (embassy-time default tick rate of 1 MHz).
pub const TICK_HZ: u64 = embassy_time_driver::TICK_HZ;

pub fn reset() {
    NOW.with(|n| n.set(0));
    QUEUE.with(|q| q.borrow_mut().clear());
    ARMED.with(|a| a.set(0));
}

pub fn now() -> u64 {
    NOW.with(|n| n.get())
}

pub fn set_now(t: u64) {
    NOW.with(|n| n.set(t));
}

/// Earliest armed deadline, if any.
pub fn next_deadline() -> Option<u64> {
    QUEUE.with(|q| q.borrow().iter().map(|(t, _)| *t).min())
}

pub fn pending_timers() -> usize {
    QUEUE.with(|q| q.borrow().len())
}

/// Advance to `t` (never backwards) and wake every timer that is due. Returns how many fired.
pub fn advance_to(t: u64) -> usize {
    let now = NOW.with(|n| n.get());
    let t = t.max(now);
    NOW.with(|n| n.set(t));
    let due: Vec<Waker> = QUEUE.with(|q| {
        let mut q = q.borrow_mut();
        let mut due = Vec::new();
        let mut i = 0;
        while i < q.len() {
            if q[i].0 <= t {
                due.push(q.swap_remove(i).1);
            } else {
                i += 1;
            }
        }
        due
    });
    let n = due.len();
    for w in due {
        w.wake();
    }
    n
}

/// Advance to the earliest deadline and fire it. `None` if nothing is armed.
pub fn fire_next() -> Option<u64> {
    let t = next_deadline()?;
    advance_to(t);
    Some(t)
}

/// Add `dt` microseconds of virtual time, firing whatever becomes due.
pub fn advance_by(dt: u64) -> usize {
    advance_to(now() + dt)
}
