//! vx-sim: an EtherCAT segment simulator written from the ETG.1000 / ESC datasheet semantics. It
//! uses no ethercrab type: frames are parsed and answered on the byte level.

use crate::coe::CoeServer;
use std::collections::BTreeMap;

pub const MEM: usize = 0x10000;

// ------------------------------------------------------------------------------------------------
// Device
// ------------------------------------------------------------------------------------------------

#[derive(Clone, Debug, PartialEq)]
pub enum AlAnswer {
    /// Accept the requested state once the status register has been read `polls` times.
    Accept { polls: u8 },
    /// Refuse: keep the old state, set the error bit and this status code.
    Refuse { code: u16 },
    /// Never change state, never signal an error.
    Stall,
    /// Accept, then fall back to `to` (with error bit and code) after `polls` further status reads.
    AcceptThenFallBack { polls: u8, to: u8, code: u16 },
    /// Accept, then fall back to `to` once `ticks` further datagrams (of any kind, addressed to
    /// anyone) have passed through the device: the fall-back does not wait for the device's own
    /// status to be read.
    AcceptThenFallBackTimed { ticks: u8, to: u8, code: u16 },
}

thread_local! {
    static AL_SEQ: std::cell::Cell<u64> = const { std::cell::Cell::new(0) };
}

#[derive(Clone, Debug)]
pub struct SiiCfg {
    /// 8-byte reads (else 4).
    pub read8: bool,
    /// Status reads that still show busy after a command.
    pub busy_polls: u8,
    /// `true`: busy never clears.
    pub busy_forever: bool,
    /// Write commands answered with the command-error flag before one succeeds.
    pub write_cmd_errors: u8,
}

impl Default for SiiCfg {
    fn default() -> Self {
        Self {
            read8: true,
            busy_polls: 0,
            busy_forever: false,
            write_cmd_errors: 0,
        }
    }
}

#[derive(Clone, Debug, Default)]
pub struct DcCfg {
    /// bit2 of 0x0008 (DC supported), bit3 (64 bit), bit 8 of 0x0009 -> enhanced sync (bit 8).
    pub supported: bool,
    pub bits64: bool,
    pub enhanced: bool,
    /// local clock = global simulated time + this offset (ns)
    pub clock_offset: u64,
    /// if set, every read of the system time register (0x0910) returns exactly this value
    pub systime_override: Option<u64>,
}

#[derive(Clone, Debug)]
pub struct WriteRec {
    pub frame_no: u64,
    pub cmd: u8,
    pub addr: u16,
    pub data: Vec<u8>,
}

pub struct Device {
    pub mem: Box<[u8]>,
    pub eeprom: Vec<u8>,
    pub sii: SiiCfg,
    sii_busy_left: u8,
    sii_cmd_errors_left: u8,
    pub sii_write_attempts: BTreeMap<u16, u32>,
    pub sii_reads: u64,
    /// AL behaviour per requested state (low nibble); default = accept at once.
    pub al_script: BTreeMap<u8, AlAnswer>,
    al_pending: Option<(u8, u8)>,
    al_fallback: Option<(u8, u8, u16)>,
    al_fallback_ticks: Option<(u8, u8, u16)>,
    pub al_requests: Vec<u8>,
    /// every change of the AL status register: (global sequence number, new status byte)
    pub al_changes: Vec<(u64, u8)>,
    /// every read of the AL status register: (global sequence number, status byte reported)
    pub al_reads: Vec<(u64, u8)>,
    /// open ports [p0, p1, p2, p3]
    pub ports: [bool; 4],
    /// DL status override (for the inconsistent-report clause of C17)
    pub dl_status_override: Option<u16>,
    pub dc: DcCfg,
    /// latched port receive times (ns, local clock) for ports 0..3, and 0x0918
    pub port_times: [u64; 4],
    pub port_time_override: Option<[u32; 4]>,
    pub coe: Option<CoeServer>,
    pub writes: Vec<WriteRec>,
    pub present: bool,
    pub accesses: u64,
}

pub const R_TYPE: usize = 0x0000;
pub const R_SUPPORT: usize = 0x0008;
pub const R_ADDR: usize = 0x0010;
pub const R_ALIAS: usize = 0x0012;
pub const R_DL_STATUS: usize = 0x0110;
pub const R_AL_CONTROL: usize = 0x0120;
pub const R_AL_STATUS: usize = 0x0130;
pub const R_AL_CODE: usize = 0x0134;
pub const R_SII_CFG: usize = 0x0500;
pub const R_SII_CTRL: usize = 0x0502;
pub const R_SII_ADDR: usize = 0x0504;
pub const R_SII_DATA: usize = 0x0508;
pub const R_FMMU: usize = 0x0600;
pub const R_SM: usize = 0x0800;
pub const R_DC_PORT0: usize = 0x0900;
pub const R_DC_SYSTIME: usize = 0x0910;
pub const R_DC_RECV: usize = 0x0918;
pub const R_DC_OFFSET: usize = 0x0920;
pub const R_DC_DELAY: usize = 0x0928;

impl Device {
    pub fn new(eeprom: Vec<u8>) -> Self {
        let mut d = Device {
            mem: vec![0u8; MEM].into_boxed_slice(),
            eeprom,
            sii: SiiCfg::default(),
            sii_busy_left: 0,
            sii_cmd_errors_left: 0,
            sii_write_attempts: BTreeMap::new(),
            sii_reads: 0,
            al_script: BTreeMap::new(),
            al_pending: None,
            al_fallback: None,
            al_fallback_ticks: None,
            al_changes: Vec::new(),
            al_reads: Vec::new(),
            al_requests: Vec::new(),
            ports: [true, true, false, false],
            dl_status_override: None,
            dc: DcCfg::default(),
            port_times: [0; 4],
            port_time_override: None,
            coe: None,
            writes: Vec::new(),
            present: true,
            accesses: 0,
        };
        d.mem[R_TYPE] = 0x11;
        d.mem[0x0004] = 16; // FMMUs
        d.mem[0x0005] = 16; // SMs
        d.mem[R_AL_STATUS] = 0x01; // INIT
        d.reload_alias();
        d
    }

    pub fn reload_alias(&mut self) {
        if self.eeprom.len() >= 10 {
            self.mem[R_ALIAS] = self.eeprom[8];
            self.mem[R_ALIAS + 1] = self.eeprom[9];
        }
    }

    pub fn station_address(&self) -> u16 {
        u16::from_le_bytes([self.mem[R_ADDR], self.mem[R_ADDR + 1]])
    }

    pub fn al_state(&self) -> u8 {
        self.mem[R_AL_STATUS] & 0x0f
    }

    fn support_flags(&self) -> u16 {
        let mut f = 0u16;
        if self.dc.supported {
            f |= 1 << 2;
        }
        if self.dc.bits64 {
            f |= 1 << 3;
        }
        if self.dc.enhanced {
            f |= 1 << 8;
        }
        f
    }

    fn dl_status(&self) -> u16 {
        if let Some(o) = self.dl_status_override {
            return o;
        }
        let mut v = 0x0001u16; // PDI operational
        // link bits 4..7 = ports 0,1,2,3
        for p in 0..4 {
            if self.ports[p] {
                v |= 1 << (4 + p);
                v |= 1 << (9 + 2 * p); // communication established
            } else {
                v |= 1 << (8 + 2 * p); // loop closed
            }
        }
        v
    }

    fn sm(&self, i: usize) -> (u16, u16, u8, bool) {
        let b = R_SM + 8 * i;
        (
            u16::from_le_bytes([self.mem[b], self.mem[b + 1]]),
            u16::from_le_bytes([self.mem[b + 2], self.mem[b + 3]]),
            self.mem[b + 4],
            self.mem[b + 6] & 1 != 0,
        )
    }

    /// Mailbox sync managers currently configured: (write (master->device), read (device->master))
    fn mailbox_sms(&self) -> (Option<usize>, Option<usize>) {
        let mut w = None;
        let mut r = None;
        for i in 0..16 {
            let (_start, len, control, enable) = self.sm(i);
            if !enable || len == 0 {
                continue;
            }
            // control bits 0-1: mode (2 = mailbox), bits 2-3: direction (1 = master write)
            if control & 0x03 == 0x02 {
                if (control >> 2) & 0x03 == 0x01 {
                    w.get_or_insert(i);
                } else {
                    r.get_or_insert(i);
                }
            }
        }
        (w, r)
    }

    /// Read `len` bytes at `addr` as the ECAT side sees them (side effects: AL/SII poll counters,
    /// mailbox read acknowledgement).
    pub fn read(&mut self, addr: usize, len: usize, out: &mut [u8]) -> bool {
        if addr + len > MEM {
            return false;
        }
        // an ESC without distributed clocks has no DC register block
        if !self.dc.supported && overlaps(addr, len, 0x0900, 0x100) {
            return false;
        }
        self.accesses += 1;
        // computed registers are refreshed into memory first
        if overlaps(addr, len, R_SUPPORT, 2) {
            let f = self.support_flags().to_le_bytes();
            self.mem[R_SUPPORT..R_SUPPORT + 2].copy_from_slice(&f);
        }
        if overlaps(addr, len, R_DL_STATUS, 2) {
            let f = self.dl_status().to_le_bytes();
            self.mem[R_DL_STATUS..R_DL_STATUS + 2].copy_from_slice(&f);
        }
        if overlaps(addr, len, R_AL_STATUS, 2) {
            self.al_poll();
            let seq = AL_SEQ.with(|c| {
                let v = c.get() + 1;
                c.set(v);
                v
            });
            self.al_reads.push((seq, self.mem[R_AL_STATUS]));
        }
        if overlaps(addr, len, R_SII_CTRL, 2) {
            self.sii_poll();
        }
        if overlaps(addr, len, R_DC_PORT0, 16) {
            for p in 0..4 {
                let t = match self.port_time_override {
                    Some(o) => o[p],
                    None => self.port_times[p] as u32,
                };
                self.mem[R_DC_PORT0 + 4 * p..R_DC_PORT0 + 4 * p + 4].copy_from_slice(&t.to_le_bytes());
            }
        }
        // sync manager status bytes
        let (mw, mr) = self.mailbox_sms();
        for i in 0..16 {
            let sb = R_SM + 8 * i + 5;
            if overlaps(addr, len, sb, 1) {
                let mut st = 0u8;
                if Some(i) == mr {
                    if self.coe.as_ref().map(|c| c.out_full()).unwrap_or(false) {
                        st |= 0x08;
                    }
                }
                if Some(i) == mw {
                    if self.coe.as_ref().map(|c| c.in_full()).unwrap_or(false) {
                        st |= 0x08;
                    }
                }
                self.mem[sb] = st;
            }
        }
        // read mailbox window
        if let Some(r) = mr {
            let (start, mlen, _, _) = self.sm(r);
            let (start, mlen) = (start as usize, mlen as usize);
            if overlaps(addr, len, start, mlen) && self.coe.is_some() {
                let coe = self.coe.as_mut().unwrap();
                let content = coe.out_content(mlen);
                self.mem[start..start + mlen].copy_from_slice(&content);
                // reading the last byte of the window frees the mailbox
                if addr + len >= start + mlen {
                    coe.out_taken();
                    coe.after_taken();
                }
            }
        }
        out[..len].copy_from_slice(&self.mem[addr..addr + len]);
        true
    }

    /// Write as the ECAT side. Returns false if not serviced.
    pub fn write(&mut self, addr: usize, data: &[u8], cmd: u8, frame_no: u64) -> bool {
        let len = data.len();
        if addr + len > MEM {
            return false;
        }
        if !self.dc.supported && overlaps(addr, len, 0x0900, 0x100) {
            return false;
        }
        self.accesses += 1;
        self.writes.push(WriteRec {
            frame_no,
            cmd,
            addr: addr as u16,
            data: data.to_vec(),
        });
        // read-only areas keep their value
        let mut tmp = data.to_vec();
        for (i, b) in tmp.iter_mut().enumerate() {
            let a = addr + i;
            let ro = a < 0x0010
                || (R_DL_STATUS..R_DL_STATUS + 2).contains(&a)
                || (R_AL_STATUS..R_AL_STATUS + 2).contains(&a)
                || (R_AL_CODE..R_AL_CODE + 2).contains(&a)
                || (R_ALIAS..R_ALIAS + 2).contains(&a)
                || (R_DC_RECV..R_DC_RECV + 8).contains(&a)
                || (0x0800..0x0880).contains(&a) && (a - 0x0800) % 8 == 5;
            if ro {
                *b = self.mem[a];
            }
        }
        // SII data register is written before the write command
        let touches_sii_ctrl = overlaps(addr, len, R_SII_CTRL, 2);
        let touches_al = overlaps(addr, len, R_AL_CONTROL, 2);
        self.mem[addr..addr + len].copy_from_slice(&tmp);
        if touches_al {
            let req = u16::from_le_bytes([self.mem[R_AL_CONTROL], self.mem[R_AL_CONTROL + 1]]);
            self.al_request(req);
        }
        if touches_sii_ctrl {
            self.sii_command();
        }
        // write mailbox window: a write reaching the last byte posts the mailbox
        let (mw, _) = self.mailbox_sms();
        if let Some(wsm) = mw {
            let (start, mlen, _, _) = self.sm(wsm);
            let (start, mlen) = (start as usize, mlen as usize);
            if overlaps(addr, len, start, mlen) && addr + len >= start + mlen {
                if let Some(coe) = self.coe.as_mut() {
                    let content = self.mem[start..start + mlen].to_vec();
                    coe.post(&content);
                }
            }
        }
        true
    }

    /// Record the AL status register if it changed (the sequence numbers of all devices of a thread
    /// are totally ordered, so that "all members were in the state at the same instant" can be decided).
    fn log_al(&mut self) {
        let now = self.mem[R_AL_STATUS];
        if self.al_changes.last().map(|c| c.1) != Some(now) {
            let seq = AL_SEQ.with(|c| {
                let v = c.get() + 1;
                c.set(v);
                v
            });
            self.al_changes.push((seq, now));
        }
    }

    fn al_request(&mut self, req: u16) {
        self.al_request_inner(req);
        self.log_al();
    }

    fn al_request_inner(&mut self, req: u16) {
        let target = (req & 0x0f) as u8;
        let ack = req & 0x10 != 0;
        self.al_requests.push(target);
        if ack {
            self.mem[R_AL_STATUS] &= !0x10;
            self.mem[R_AL_CODE] = 0;
            self.mem[R_AL_CODE + 1] = 0;
        }
        self.al_fallback = None;
        self.al_fallback_ticks = None;
        match self.al_script.get(&target).cloned().unwrap_or(AlAnswer::Accept { polls: 0 }) {
            AlAnswer::Accept { polls } => {
                if polls == 0 {
                    self.mem[R_AL_STATUS] = (self.mem[R_AL_STATUS] & 0x10) | target;
                    self.al_pending = None;
                } else {
                    self.al_pending = Some((target, polls));
                }
            }
            AlAnswer::Refuse { code } => {
                self.mem[R_AL_STATUS] |= 0x10;
                self.mem[R_AL_CODE..R_AL_CODE + 2].copy_from_slice(&code.to_le_bytes());
                self.al_pending = None;
            }
            AlAnswer::Stall => {
                self.al_pending = None;
            }
            AlAnswer::AcceptThenFallBack { polls, to, code } => {
                self.mem[R_AL_STATUS] = (self.mem[R_AL_STATUS] & 0x10) | target;
                self.al_pending = None;
                self.al_fallback = Some((polls, to, code));
            }
            AlAnswer::AcceptThenFallBackTimed { ticks, to, code } => {
                self.mem[R_AL_STATUS] = (self.mem[R_AL_STATUS] & 0x10) | target;
                self.al_pending = None;
                self.al_fallback_ticks = Some((ticks, to, code));
            }
        }
    }

    fn al_poll(&mut self) {
        self.al_poll_inner();
        self.log_al();
    }

    /// One datagram passed through the device (whoever it was addressed to).
    pub fn tick(&mut self) {
        if let Some((left, to, code)) = self.al_fallback_ticks {
            if left == 0 {
                self.mem[R_AL_STATUS] = 0x10 | to;
                self.mem[R_AL_CODE..R_AL_CODE + 2].copy_from_slice(&code.to_le_bytes());
                self.al_fallback_ticks = None;
                self.log_al();
            } else {
                self.al_fallback_ticks = Some((left - 1, to, code));
            }
        }
    }

    fn al_poll_inner(&mut self) {
        if let Some((target, left)) = self.al_pending {
            if left <= 1 {
                self.mem[R_AL_STATUS] = (self.mem[R_AL_STATUS] & 0x10) | target;
                self.al_pending = None;
            } else {
                self.al_pending = Some((target, left - 1));
            }
        } else if let Some((left, to, code)) = self.al_fallback {
            if left == 0 {
                self.mem[R_AL_STATUS] = 0x10 | to;
                self.mem[R_AL_CODE..R_AL_CODE + 2].copy_from_slice(&code.to_le_bytes());
                self.al_fallback = None;
            } else {
                self.al_fallback = Some((left - 1, to, code));
            }
        }
    }

    fn sii_status_base(&self) -> u8 {
        // bit6: 8-byte reads, bit7: two address octets
        let mut b = 0x80u8;
        if self.sii.read8 {
            b |= 0x40;
        }
        b
    }

    fn sii_command(&mut self) {
        let ctl = self.mem[R_SII_CTRL + 1];
        let wr_enable = self.mem[R_SII_CTRL] & 0x01 != 0;
        let addr = u32::from_le_bytes([
            self.mem[R_SII_ADDR],
            self.mem[R_SII_ADDR + 1],
            self.mem[R_SII_ADDR + 2],
            self.mem[R_SII_ADDR + 3],
        ]) as usize;
        let mut status_hi = 0u8;
        // error flags are cleared by writing zeroes to them together with a command
        if ctl & 0x01 != 0 {
            // read
            self.sii_reads += 1;
            let n = if self.sii.read8 { 8 } else { 4 };
            for i in 0..8 {
                let v = if i < n {
                    self.eeprom.get(addr * 2 + i).copied().unwrap_or(0xff)
                } else {
                    0
                };
                self.mem[R_SII_DATA + i] = v;
            }
            self.sii_busy_left = self.sii.busy_polls;
        } else if ctl & 0x02 != 0 {
            *self.sii_write_attempts.entry(addr as u16).or_insert(0) += 1;
            if self.sii_cmd_errors_left > 0 {
                self.sii_cmd_errors_left -= 1;
                status_hi |= 0x20; // command error
            } else if !wr_enable {
                status_hi |= 0x20;
            } else {
                if addr * 2 + 1 < self.eeprom.len() {
                    self.eeprom[addr * 2] = self.mem[R_SII_DATA];
                    self.eeprom[addr * 2 + 1] = self.mem[R_SII_DATA + 1];
                } else {
                    status_hi |= 0x40; // write error / no acknowledge
                }
                self.sii_cmd_errors_left = self.sii.write_cmd_errors;
            }
            self.sii_busy_left = self.sii.busy_polls;
        } else if ctl & 0x04 != 0 {
            self.reload_alias();
        }
        if self.sii_busy_left > 0 || self.sii.busy_forever {
            status_hi |= 0x80;
        }
        self.mem[R_SII_CTRL] = self.sii_status_base() | (self.mem[R_SII_CTRL] & 0x01);
        self.mem[R_SII_CTRL + 1] = status_hi;
    }

    fn sii_poll(&mut self) {
        self.mem[R_SII_CTRL] = self.sii_status_base() | (self.mem[R_SII_CTRL] & 0x01);
        if self.sii.busy_forever {
            self.mem[R_SII_CTRL + 1] |= 0x80;
            return;
        }
        if self.sii_busy_left > 0 {
            self.sii_busy_left -= 1;
            self.mem[R_SII_CTRL + 1] |= 0x80;
        } else {
            self.mem[R_SII_CTRL + 1] &= !0x80;
        }
    }

    pub fn arm_write_errors(&mut self) {
        self.sii_cmd_errors_left = self.sii.write_cmd_errors;
    }

    /// (logical start, length, physical start, read, write) of every enabled FMMU
    pub fn fmmus(&self) -> Vec<(u32, u16, u16, bool, bool, u8, u8, u8)> {
        let mut v = Vec::new();
        for i in 0..16 {
            let b = R_FMMU + 16 * i;
            let m = &self.mem[b..b + 16];
            if m[12] & 1 == 0 {
                continue;
            }
            v.push((
                u32::from_le_bytes([m[0], m[1], m[2], m[3]]),
                u16::from_le_bytes([m[4], m[5]]),
                u16::from_le_bytes([m[8], m[9]]),
                m[11] & 1 != 0,
                m[11] & 2 != 0,
                m[6] & 7,
                m[7] & 7,
                m[10] & 7,
            ));
        }
        v
    }
}

fn overlaps(addr: usize, len: usize, start: usize, l2: usize) -> bool {
    addr < start + l2 && start < addr + len
}

// ------------------------------------------------------------------------------------------------
// Segment
// ------------------------------------------------------------------------------------------------

/// Physical wiring, only needed for DC timing: parent device index and the parent's port the
/// device hangs off. Devices are listed in frame-processing order.
#[derive(Clone, Debug, Default)]
pub struct Wiring {
    pub parent: Vec<Option<(usize, usize)>>,
    /// one-way delay (ns) of the link to the parent
    pub link_delay: Vec<u64>,
    /// forwarding/processing delay (ns) of each device per traversed port
    pub fwd_delay: Vec<u64>,
}

pub struct Segment {
    pub devices: Vec<Device>,
    pub wiring: Wiring,
    pub frames: u64,
    pub datagrams: u64,
    /// global simulated time in ns (advanced by the executor)
    pub time_ns: u64,
    /// wire fault: rewrite the working counter of datagram number `n` (counted over the run)
    pub wkc_rewrite: Option<(u64, u16)>,
    /// a device stops answering after this many datagrams addressed to it were serviced
    pub vanish_after: Option<(usize, u64)>,
    pub serviced: Vec<u64>,
    pub unsupported: Vec<String>,
    /// every LRW/LRD/LWR datagram seen: (frame_no, cmd, logical address, length)
    pub logical_log: Vec<(u64, u8, u32, usize)>,
    /// every datagram seen: (frame_no, cmd, adp, ado, len)
    pub dgram_log: Vec<(u64, u8, u16, u16, usize)>,
    pub keep_logs: bool,
    /// per frame, every datagram with what was sent and what came back
    pub frame_log: Vec<Vec<Dg>>,
    /// global time at which the port-time latch frame enters device 0 (else the running clock)
    pub latch_time_override: Option<u64>,
    /// What the receive-time registers of ports that are not open hold after a latch: `None` = 0;
    /// `Some(d)` = the (local, 32 bit) time `d` ns *before* this device's entry time, i.e. a value
    /// left over from an earlier latch when the port still had a link. A real ESC only latches the
    /// ports a frame comes in through.
    pub closed_port_stale: Option<u64>,
}

#[derive(Clone, Debug)]
pub struct Dg {
    pub cmd: u8,
    pub adp: u16,
    pub ado: u16,
    pub sent: Vec<u8>,
    pub returned: Vec<u8>,
    pub wkc: u16,
    pub more: bool,
}

impl Dg {
    pub fn logical(&self) -> u32 {
        (u32::from(self.ado) << 16) | u32::from(self.adp)
    }
}

impl Segment {
    pub fn new(devices: Vec<Device>) -> Self {
        let n = devices.len();
        // default wiring: a chain
        let mut s = Segment {
            devices,
            wiring: Wiring {
                parent: (0..n).map(|i| if i == 0 { None } else { Some((i - 1, 1)) }).collect(),
                link_delay: vec![100; n],
                fwd_delay: vec![40; n],
            },
            frames: 0,
            datagrams: 0,
            time_ns: 1_000_000,
            wkc_rewrite: None,
            vanish_after: None,
            serviced: vec![0; n],
            unsupported: Vec::new(),
            logical_log: Vec::new(),
            dgram_log: Vec::new(),
            keep_logs: false,
            frame_log: Vec::new(),
            latch_time_override: None,
            closed_port_stale: None,
        };
        s.apply_chain_ports();
        s
    }

    /// Open ports according to the wiring: port 0 towards the parent, child ports as wired.
    pub fn apply_chain_ports(&mut self) {
        let n = self.devices.len();
        for i in 0..n {
            self.devices[i].ports = [true, false, false, false];
        }
        for i in 0..n {
            if let Some((p, port)) = self.wiring.parent[i] {
                self.devices[p].ports[port] = true;
            }
        }
    }

    /// Process one Ethernet frame and return the frame that comes back to the MainDevice.
    pub fn process(&mut self, frame: &[u8]) -> Option<Vec<u8>> {
        self.frames += 1;
        let frame_no = self.frames;
        if frame.len() < 16 || frame[12] != 0x88 || frame[13] != 0xa4 {
            return None;
        }
        let mut out = frame.to_vec();
        out[6] |= 0x02;
        let hdr = u16::from_le_bytes([frame[14], frame[15]]);
        let total = (hdr & 0x07ff) as usize;
        let end = (16 + total).min(frame.len());
        let mut off = 16;
        let mut this_frame: Vec<Dg> = Vec::new();
        while off + 12 <= end {
            let cmd = out[off];
            let lf = u16::from_le_bytes([out[off + 6], out[off + 7]]);
            let len = (lf & 0x07ff) as usize;
            let more = lf & 0x8000 != 0;
            if off + 10 + len + 2 > end {
                break;
            }
            self.datagrams += 1;
            let dno = self.datagrams;
            let (head, rest) = out.split_at_mut(off + 10);
            let (data, rest2) = rest.split_at_mut(len);
            let mut adp = u16::from_le_bytes([head[off + 2], head[off + 3]]);
            let ado = u16::from_le_bytes([head[off + 4], head[off + 5]]);
            let mut wkc = u16::from_le_bytes([rest2[0], rest2[1]]);
            let adp_in = adp;
            let sent = if self.keep_logs { data.to_vec() } else { Vec::new() };
            if self.keep_logs {
                self.dgram_log.push((frame_no, cmd, adp, ado, len));
            }
            self.datagram(cmd, &mut adp, ado, data, &mut wkc, frame_no);
            if let Some((n, v)) = self.wkc_rewrite {
                if n == dno {
                    wkc = v;
                }
            }
            if self.keep_logs {
                this_frame.push(Dg { cmd, adp: adp_in, ado, sent, returned: data.to_vec(), wkc, more });
            }
            head[off + 2..off + 4].copy_from_slice(&adp.to_le_bytes());
            rest2[0..2].copy_from_slice(&wkc.to_le_bytes());
            off += 10 + len + 2;
            if !more {
                break;
            }
        }
        if self.keep_logs {
            self.frame_log.push(this_frame);
        }
        Some(out)
    }

    fn present(&self, i: usize) -> bool {
        if !self.devices[i].present {
            return false;
        }
        if let Some((d, n)) = self.vanish_after {
            if d == i && self.serviced[i] >= n {
                return false;
            }
        }
        true
    }

    fn datagram(&mut self, cmd: u8, adp: &mut u16, ado: u16, data: &mut [u8], wkc: &mut u16, frame_no: u64) {
        let n = self.devices.len();
        for d in self.devices.iter_mut() {
            d.tick();
        }
        let len = data.len();
        match cmd {
            0 => {}
            // APRD, APWR, APRW
            1 | 2 | 3 => {
                for i in 0..n {
                    if *adp == 0 && self.present(i) {
                        self.rw(i, cmd, ado, data, wkc, frame_no);
                    }
                    *adp = adp.wrapping_add(1);
                }
            }
            // FPRD, FPWR, FPRW
            4 | 5 | 6 => {
                for i in 0..n {
                    if self.present(i) && self.devices[i].station_address() == *adp {
                        self.rw(i, cmd - 3, ado, data, wkc, frame_no);
                    }
                }
            }
            // BRD: OR of all devices
            7 => {
                let mut tmp = vec![0u8; len];
                for i in 0..n {
                    if !self.present(i) {
                        continue;
                    }
                    if self.devices[i].read(ado as usize, len, &mut tmp) {
                        for (d, t) in data.iter_mut().zip(tmp.iter()) {
                            *d |= *t;
                        }
                        *wkc = wkc.wrapping_add(1);
                        self.serviced[i] += 1;
                    }
                    *adp = adp.wrapping_add(1);
                }
            }
            // BWR
            8 => {
                if ado as usize == R_DC_PORT0 {
                    if let Some(t) = self.latch_time_override {
                        self.time_ns = t;
                    }
                    self.latch_times();
                }
                for i in 0..n {
                    if !self.present(i) {
                        continue;
                    }
                    if ado as usize == R_DC_PORT0 {
                        if self.devices[i].dc.supported {
                            self.devices[i].writes.push(WriteRec { frame_no, cmd, addr: ado, data: data.to_vec() });
                            *wkc = wkc.wrapping_add(1);
                        }
                    } else if self.devices[i].write(ado as usize, data, cmd, frame_no) {
                        *wkc = wkc.wrapping_add(1);
                        self.serviced[i] += 1;
                    }
                    *adp = adp.wrapping_add(1);
                }
            }
            // LRD, LWR, LRW
            10 | 11 | 12 => {
                let laddr = (u32::from(ado) << 16) | u32::from(*adp);
                if self.keep_logs {
                    self.logical_log.push((frame_no, cmd, laddr, len));
                }
                let original = data.to_vec();
                for i in 0..n {
                    if !self.present(i) {
                        continue;
                    }
                    let mut did_read = false;
                    let mut did_write = false;
                    for (ls, flen, phys, rd, wr, sb, eb, pb) in self.devices[i].fmmus() {
                        if sb != 0 || eb != 7 || pb != 0 {
                            self.unsupported.push(format!("bitwise FMMU on device {}", i));
                        }
                        let lo = laddr.max(ls);
                        let hi = (laddr as u64 + len as u64).min(ls as u64 + flen as u64);
                        if (lo as u64) >= hi {
                            continue;
                        }
                        let count = (hi - lo as u64) as usize;
                        let doff = (lo - laddr) as usize;
                        let poff = phys as usize + (lo - ls) as usize;
                        if poff + count > MEM {
                            continue;
                        }
                        if rd && (cmd == 10 || cmd == 12) {
                            data[doff..doff + count].copy_from_slice(&self.devices[i].mem[poff..poff + count]);
                            did_read = true;
                        }
                        if wr && (cmd == 11 || cmd == 12) {
                            let src = original[doff..doff + count].to_vec();
                            self.devices[i].mem[poff..poff + count].copy_from_slice(&src);
                            did_write = true;
                        }
                    }
                    if did_read {
                        *wkc = wkc.wrapping_add(1);
                    }
                    if did_write {
                        *wkc = wkc.wrapping_add(if cmd == 12 { 2 } else { 1 });
                    }
                    if did_read || did_write {
                        self.serviced[i] += 1;
                    }
                }
            }
            // ARMW / FRMW: addressed device reads, all others write
            13 | 14 => {
                let mut buf = data.to_vec();
                let mut have = false;
                for i in 0..n {
                    let addressed = if cmd == 13 {
                        let a = *adp == 0;
                        *adp = adp.wrapping_add(1);
                        a
                    } else {
                        self.devices[i].station_address() == *adp
                    };
                    if !self.present(i) {
                        continue;
                    }
                    if addressed {
                        if ado as usize == R_DC_SYSTIME {
                            let t = self.devices[i].dc.systime_override.unwrap_or_else(|| self.local_time(i).wrapping_add(self.sys_offset(i)));
                            let b = t.to_le_bytes();
                            let l = len.min(8);
                            buf[..l].copy_from_slice(&b[..l]);
                            *wkc = wkc.wrapping_add(1);
                            have = true;
                        } else if self.devices[i].read(ado as usize, len, &mut buf) {
                            *wkc = wkc.wrapping_add(1);
                            have = true;
                        }
                        self.serviced[i] += 1;
                    } else if have && ado as usize != R_DC_SYSTIME {
                        let b = buf.clone();
                        if self.devices[i].write(ado as usize, &b, cmd, frame_no) {
                            *wkc = wkc.wrapping_add(1);
                        }
                    }
                }
                data.copy_from_slice(&buf);
            }
            _ => {}
        }
    }

    fn rw(&mut self, i: usize, kind: u8, ado: u16, data: &mut [u8], wkc: &mut u16, frame_no: u64) {
        let len = data.len();
        let a = ado as usize;
        match kind {
            1 => {
                if a == R_DC_SYSTIME && len == 8 && self.devices[i].dc.supported {
                    let t = self.devices[i].dc.systime_override.unwrap_or_else(|| self.local_time(i).wrapping_add(self.sys_offset(i)));
                    data.copy_from_slice(&t.to_le_bytes());
                    *wkc = wkc.wrapping_add(1);
                } else if a == R_DC_RECV && len == 8 && self.devices[i].dc.supported {
                    let t = self.devices[i].port_times[0];
                    data.copy_from_slice(&t.to_le_bytes());
                    *wkc = wkc.wrapping_add(1);
                } else if self.devices[i].read(a, len, data) {
                    *wkc = wkc.wrapping_add(1);
                }
            }
            2 => {
                let d = data.to_vec();
                if self.devices[i].write(a, &d, 2, frame_no) {
                    *wkc = wkc.wrapping_add(1);
                }
            }
            _ => {
                let d = data.to_vec();
                let mut ok = false;
                if self.devices[i].read(a, len, data) {
                    *wkc = wkc.wrapping_add(1);
                    ok = true;
                }
                if self.devices[i].write(a, &d, 3, frame_no) {
                    *wkc = wkc.wrapping_add(2);
                    ok = true;
                }
                let _ = ok;
            }
        }
        self.serviced[i] += 1;
    }

    pub fn local_time(&self, i: usize) -> u64 {
        self.time_ns.wrapping_add(self.devices[i].dc.clock_offset)
    }

    fn sys_offset(&self, i: usize) -> u64 {
        let m = &self.devices[i].mem[R_DC_OFFSET..R_DC_OFFSET + 8];
        u64::from_le_bytes([m[0], m[1], m[2], m[3], m[4], m[5], m[6], m[7]])
    }

    /// Physical model: a frame enters device 0 at `time_ns`, visits open ports in order
    /// 0 -> 3 -> 1 -> 2 -> 0. Port receive time = local clock when the frame enters that port.
    pub fn latch_times(&mut self) {
        let n = self.devices.len();
        let mut children: Vec<Vec<(usize, usize)>> = vec![Vec::new(); n];
        for i in 0..n {
            if let Some((p, port)) = self.wiring.parent[i] {
                children[p].push((port, i));
            }
        }
        let mut times: Vec<[u64; 4]> = vec![[0; 4]; n];
        // recursive walk: returns the time at which the frame leaves device `i` back to its parent
        fn visit(
            i: usize,
            t_in: u64,
            seg: &Segment,
            children: &Vec<Vec<(usize, usize)>>,
            times: &mut Vec<[u64; 4]>,
        ) -> u64 {
            let f = seg.wiring.fwd_delay[i];
            times[i][0] = t_in;
            let mut t = t_in;
            for port in [3usize, 1, 2] {
                if let Some((_, c)) = children[i].iter().find(|(p, _)| *p == port) {
                    // forward to the port, over the link, through the child, back
                    t += f;
                    let w = seg.wiring.link_delay[*c];
                    let back = visit(*c, t + w, seg, children, times);
                    t = back + w;
                    times[i][port] = t;
                }
            }
            // processing/forwarding back to port 0
            t + f
        }
        let roots: Vec<usize> = (0..n).filter(|i| self.wiring.parent[*i].is_none()).collect();
        let mut t = self.time_ns;
        for r in roots {
            t = visit(r, t, self, &children, &mut times);
        }
        for i in 0..n {
            let off = self.devices[i].dc.clock_offset;
            for p in 0..4 {
                self.devices[i].port_times[p] = if times[i][p] == 0 && p != 0 {
                    match self.closed_port_stale {
                        None => 0,
                        Some(d) => times[i][0].wrapping_add(off).wrapping_sub(d.wrapping_mul(p as u64)),
                    }
                } else {
                    times[i][p].wrapping_add(off)
                };
            }
        }
    }

    /// True one-way delay (ns) from device `from` to device `to` (to must be downstream of from in
    /// processing order on the path the frame takes).
    pub fn arrival_times(&self) -> Vec<u64> {
        // time at which the frame enters port 0 of each device, relative to device 0
        let mut me = Segment {
            devices: Vec::new(),
            wiring: self.wiring.clone(),
            frames: 0,
            datagrams: 0,
            time_ns: 0,
            wkc_rewrite: None,
            vanish_after: None,
            serviced: Vec::new(),
            unsupported: Vec::new(),
            logical_log: Vec::new(),
            dgram_log: Vec::new(),
            keep_logs: false,
            frame_log: Vec::new(),
            latch_time_override: None,
            closed_port_stale: None,
        };
        for _ in 0..self.devices.len() {
            me.devices.push(Device::new(Vec::new()));
        }
        me.time_ns = 1_000_000;
        me.latch_times();
        me.devices.iter().map(|d| d.port_times[0] - 1_000_000).collect()
    }
}
