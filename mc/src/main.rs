mod checks;
mod clock;
mod core;
mod e1;
mod e2;
mod memeeprom;
mod coe;
mod eeprom;
mod net;
mod sim;
mod report;
use vx_sizes as sizes;

use report::Tier;

fn usage() -> ! {
    eprintln!("usage: vx <C01..C20> [--tier quick|thorough]\n       vx replay <file>");
    std::process::exit(2);
}

fn main() {
    let args: Vec<String> = std::env::args().skip(1).collect();
    if args.is_empty() {
        usage();
    }
    // Panics inside explored code are caught and turned into outcomes; keep stderr quiet unless
    // asked.
    if std::env::var("VX_PANIC_VERBOSE").is_err() {
        std::panic::set_hook(Box::new(|_| {}));
    }
    let seed = std::env::var("VERIF_SEED")
        .ok()
        .and_then(|s| s.parse::<u64>().ok())
        .unwrap_or(0);
    let mut thorough = std::env::var("VERIF_TIER").map(|t| t == "thorough").unwrap_or(false);
    let child = args.iter().any(|a| a == "--child");
    let mut i = 1;
    while i < args.len() {
        if args[i] == "--tier" && i + 1 < args.len() {
            thorough = args[i + 1] == "thorough";
            i += 1;
        }
        i += 1;
    }
    if args[0] == "simtest" {
        checks::simtest::run();
        checks::simtest::run2();
        return;
    }
    // Engine watchdog: a hang is a machinery error, never a verdict.
    {
        let limit = std::env::var("VX_WATCHDOG_S")
            .ok()
            .and_then(|s| s.parse::<u64>().ok())
            .unwrap_or(if thorough { 5400 } else { 420 });
        std::thread::spawn(move || {
            std::thread::sleep(std::time::Duration::from_secs(limit));
            eprintln!("MACHINERY-ERROR: watchdog: check did not finish within {} s", limit);
            std::process::exit(2);
        });
    }
    let code = if args[0] == "replay" {
        if args.len() < 2 {
            usage();
        }
        match replay_file(&args[1]) {
            Ok(c) => c,
            Err(e) => {
                eprintln!("MACHINERY-ERROR: {}", e);
                2
            }
        }
    } else {
        let tier = Tier { thorough, seed };
        match checks::run(&args[0], &tier, child) {
            Ok(c) => c,
            Err(e) => {
                eprintln!("MACHINERY-ERROR: {}", e);
                2
            }
        }
    };
    std::process::exit(code);
}

fn replay_file(path: &str) -> Result<i32, String> {
    let v = report::read_json(std::path::Path::new(path))?;
    let engine = v["engine"].as_str().unwrap_or("");
    match engine {
        "explorer" => {
            let label = v["harness"].as_str().ok_or("no harness")?;
            let h = checks::e1_checks::harness_by_label(label)
                .or_else(|| checks::c20::harness_by_label(label))
                .ok_or_else(|| format!("unknown harness {}", label))?;
            let choices: Vec<u16> = v["choices"]
                .as_array()
                .ok_or("no choices")?
                .iter()
                .map(|x| x.as_u64().unwrap_or(0) as u16)
                .collect();
            let (res, trace) = core::replay_twice(h.as_ref(), &choices)?;
            for l in &trace {
                println!("{}", l);
            }
            println!("outcome: {}", res.outcome);
            for x in &res.violations {
                println!("violation: [{}] {}", x.signature, x.message);
            }
            let want = v["signature"].as_str().unwrap_or("");
            if res.violations.iter().any(|x| x.signature == want) {
                println!("REPRODUCED {}", want);
                Ok(1)
            } else {
                println!("not reproduced");
                Ok(0)
            }
        }
        "e2" => {
            let n = v["slots"].as_u64().unwrap_or(1) as usize;
            let k = v["max_handles"].as_u64().unwrap_or(2) as usize;
            let hist: Vec<e2::Op> = v["history"]
                .as_array()
                .ok_or("no history")?
                .iter()
                .filter_map(|x| x.as_str().and_then(e2::parse_op))
                .collect();
            let viol = e2::replay_history(n, k, &hist);
            let want = v["signature"].as_str().unwrap_or("");
            for (s, m) in &viol {
                println!("violation: [{}] {}", s, m);
            }
            if v["check"].as_str() == Some("C05") {
                println!("(C05 input {:?}: re-run `./check C05` to re-evaluate the input alphabet on this state)", v["input"]);
            }
            if viol.iter().any(|x| x.0 == want) {
                println!("REPRODUCED {}", want);
                Ok(1)
            } else {
                Ok(0)
            }
        }
        _ => {
            // enumeration engines (E3/E4): the replay file names the case by property, tier and
            // signature and carries the complete failing input in `detail`; the case is re-found by
            // re-running the deterministic enumeration in a child process that writes nothing
            let prop = v["property"].as_str().ok_or("replay file has no property")?;
            let sig = v["signature"].as_str().ok_or("replay file has no signature")?;
            let tier = v["tier"].as_str().unwrap_or("quick");
            println!("recorded case: {}", v["message"].as_str().unwrap_or(""));
            println!("re-running the {} enumeration of {} looking for signature {:?}", tier, prop, sig);
            let exe = std::env::current_exe().map_err(|e| e.to_string())?;
            let st = std::process::Command::new(exe)
                .args([prop, "--tier", tier])
                .env("VX_REPLAY_SIG", sig)
                .status()
                .map_err(|e| e.to_string())?;
            Ok(st.code().unwrap_or(2))
        }
    }
}
