//! SII EEPROM image generator: the reference encoder for C12 and the source of well-formed images
//! everywhere else. Written from ETG.2010 (SII specification); uses no ethercrab type.

#[derive(Clone, Debug, PartialEq)]
pub struct SmDesc {
    pub start: u16,
    pub len: u16,
    pub control: u8,
    pub enable: u8,
    /// 0 unknown, 1 mailbox write, 2 mailbox read, 3 process data write (outputs), 4 process data
    /// read (inputs)
    pub usage: u8,
}

#[derive(Clone, Debug, PartialEq)]
pub struct PdoDesc {
    pub index: u16,
    pub sm: u8,
    /// bit length of every entry
    pub entries: Vec<u8>,
}

#[derive(Clone, Debug, PartialEq)]
pub struct MailboxDesc {
    pub rx_offset: u16,
    pub rx_size: u16,
    pub tx_offset: u16,
    pub tx_size: u16,
    pub protocols: u8,
}

#[derive(Clone, Debug, PartialEq)]
pub struct GeneralDesc {
    pub group_idx: u8,
    pub image_idx: u8,
    pub order_idx: u8,
    pub name_idx: u8,
    pub coe_details: u8,
    pub foe: bool,
    pub eoe: bool,
    pub flags: u8,
    pub ebus_current: i16,
    pub ports: [u8; 4],
    pub phys_mem_addr: u16,
}

impl Default for GeneralDesc {
    fn default() -> Self {
        Self {
            group_idx: 0,
            image_idx: 0,
            order_idx: 1,
            name_idx: 2,
            coe_details: 0,
            foe: false,
            eoe: false,
            flags: 0,
            ebus_current: 0,
            ports: [1, 1, 0, 0],
            phys_mem_addr: 0,
        }
    }
}

#[derive(Clone, Copy, Debug, PartialEq, Eq)]
pub enum Cat {
    Strings,
    General,
    Fmmu,
    SyncM,
    FmmuEx,
    TxPdo,
    RxPdo,
    /// unknown vendor category with this type id and this many data words
    Vendor(u16, u16),
}

#[derive(Clone, Debug, PartialEq)]
pub struct DeviceDesc {
    pub vendor: u32,
    pub product: u32,
    pub revision: u32,
    pub serial: u32,
    pub alias: u16,
    pub strings: Vec<Vec<u8>>,
    pub general: Option<GeneralDesc>,
    pub mailbox: Option<MailboxDesc>,
    pub sms: Vec<SmDesc>,
    pub fmmus: Vec<u8>,
    pub fmmu_ex: Vec<u8>,
    pub tx_pdos: Vec<PdoDesc>,
    pub rx_pdos: Vec<PdoDesc>,
    /// EEPROM size in Kibit (size word = kbit - 1)
    pub size_kbit: u32,
    /// order in which categories are written; categories not listed are omitted
    pub order: Vec<Cat>,
    /// header words 0..=3 and 5..=6 (PDI control etc.)
    pub header_words: [u16; 7],
}

impl Default for DeviceDesc {
    fn default() -> Self {
        Self {
            vendor: 2,
            product: 0x044c2c52,
            revision: 0x00120000,
            serial: 0,
            alias: 0,
            strings: vec![b"VX0001".to_vec(), b"VX device".to_vec()],
            general: Some(GeneralDesc::default()),
            mailbox: None,
            sms: Vec::new(),
            fmmus: Vec::new(),
            fmmu_ex: Vec::new(),
            tx_pdos: Vec::new(),
            rx_pdos: Vec::new(),
            size_kbit: 16,
            order: vec![Cat::Strings, Cat::General, Cat::Fmmu, Cat::SyncM, Cat::TxPdo, Cat::RxPdo],
            header_words: [0x0104, 0, 0, 0xff00, 0, 0, 0],
        }
    }
}

pub fn crc8(data: &[u8]) -> u8 {
    // CRC-8, polynomial 0x07, initial value 0xFF, no reflection, no final xor (ETG.2010)
    let mut crc = 0xffu8;
    for b in data {
        crc ^= *b;
        for _ in 0..8 {
            crc = if crc & 0x80 != 0 { (crc << 1) ^ 0x07 } else { crc << 1 };
        }
    }
    crc
}

fn pdo_bytes(p: &PdoDesc) -> Vec<u8> {
    let mut v = Vec::new();
    v.extend_from_slice(&p.index.to_le_bytes());
    v.push(p.entries.len() as u8);
    v.push(p.sm);
    v.push(0); // DC sync
    v.push(0); // name index
    v.extend_from_slice(&0u16.to_le_bytes()); // flags
    for (k, bits) in p.entries.iter().enumerate() {
        v.extend_from_slice(&(0x6000u16 + k as u16).to_le_bytes()); // entry index
        v.push(1 + k as u8); // sub index
        v.push(0); // name
        v.push(if *bits == 1 { 1 } else { 6 }); // data type
        v.push(*bits);
        v.extend_from_slice(&0u16.to_le_bytes());
    }
    v
}

impl DeviceDesc {
    /// Category payload bytes (padded to a whole number of words).
    pub fn category(&self, c: Cat) -> (u16, Vec<u8>) {
        let (ty, mut v): (u16, Vec<u8>) = match c {
            Cat::Strings => {
                let mut v = vec![self.strings.len() as u8];
                for s in &self.strings {
                    v.push(s.len() as u8);
                    v.extend_from_slice(s);
                }
                (10, v)
            }
            Cat::General => {
                let g = self.general.clone().unwrap_or_default();
                let mut v = vec![
                    g.group_idx,
                    g.image_idx,
                    g.order_idx,
                    g.name_idx,
                    0,
                    g.coe_details,
                    g.foe as u8,
                    g.eoe as u8,
                    0,
                    0,
                    0,
                    g.flags,
                ];
                v.extend_from_slice(&g.ebus_current.to_le_bytes());
                v.push(g.ports[0] | (g.ports[1] << 4));
                v.push(g.ports[2] | (g.ports[3] << 4));
                v.extend_from_slice(&g.phys_mem_addr.to_le_bytes());
                v.resize(32, 0);
                (30, v)
            }
            Cat::Fmmu => (40, self.fmmus.clone()),
            Cat::SyncM => {
                let mut v = Vec::new();
                for s in &self.sms {
                    v.extend_from_slice(&s.start.to_le_bytes());
                    v.extend_from_slice(&s.len.to_le_bytes());
                    v.push(s.control);
                    v.push(0);
                    v.push(s.enable);
                    v.push(s.usage);
                }
                (41, v)
            }
            Cat::FmmuEx => {
                let mut v = Vec::new();
                for sm in &self.fmmu_ex {
                    v.push(0);
                    v.push(*sm);
                    v.push(0);
                }
                (42, v)
            }
            Cat::TxPdo => (50, self.tx_pdos.iter().flat_map(pdo_bytes).collect()),
            Cat::RxPdo => (51, self.rx_pdos.iter().flat_map(pdo_bytes).collect()),
            Cat::Vendor(ty, words) => (ty, (0..words * 2).map(|i| (0xc0 + i) as u8).collect()),
        };
        if v.len() % 2 == 1 {
            v.push(0);
        }
        (ty, v)
    }

    /// The complete image, `image_len` bytes long (filled with 0xFF after the end marker).
    pub fn image(&self) -> Vec<u8> {
        let mut w: Vec<u8> = vec![0; 128];
        let put16 = |w: &mut Vec<u8>, word: usize, v: u16| {
            w[word * 2..word * 2 + 2].copy_from_slice(&v.to_le_bytes());
        };
        let put32 = |w: &mut Vec<u8>, word: usize, v: u32| {
            w[word * 2..word * 2 + 4].copy_from_slice(&v.to_le_bytes());
        };
        for (k, word) in [0usize, 1, 2, 3, 5, 6].iter().enumerate() {
            put16(&mut w, *word, self.header_words[k]);
        }
        put16(&mut w, 4, self.alias);
        let c = crc8(&w[0..14]);
        put16(&mut w, 7, u16::from(c));
        put32(&mut w, 8, self.vendor);
        put32(&mut w, 0xa, self.product);
        put32(&mut w, 0xc, self.revision);
        put32(&mut w, 0xe, self.serial);
        if let Some(m) = &self.mailbox {
            // bootstrap mailbox (0x14..0x17) left zero; standard mailbox at 0x18
            put16(&mut w, 0x18, m.rx_offset);
            put16(&mut w, 0x19, m.rx_size);
            put16(&mut w, 0x1a, m.tx_offset);
            put16(&mut w, 0x1b, m.tx_size);
            put16(&mut w, 0x1c, u16::from(m.protocols));
        }
        put16(&mut w, 0x3e, (self.size_kbit.saturating_sub(1) & 0xffff) as u16);
        put16(&mut w, 0x3f, 1);
        for c in &self.order {
            let (ty, data) = self.category(*c);
            // empty optional categories are still written (length 0) only for vendor ones
            if data.is_empty() && !matches!(c, Cat::Vendor(..)) {
                continue;
            }
            w.extend_from_slice(&ty.to_le_bytes());
            w.extend_from_slice(&((data.len() / 2) as u16).to_le_bytes());
            w.extend_from_slice(&data);
        }
        w.extend_from_slice(&0xffffu16.to_le_bytes());
        w.extend_from_slice(&0xffffu16.to_le_bytes());
        let total = ((self.size_kbit as usize) * 128).max(w.len());
        let total = total.min(1 << 17).max(w.len());
        w.resize(total, 0xff);
        w
    }

    // ---- what a correct parser must report -----------------------------------------------

    pub fn expected_name(&self) -> Option<String> {
        let idx = self.general.as_ref()?.order_idx;
        if !self.order.contains(&Cat::General) {
            return None;
        }
        self.expected_string(idx, 64)
    }

    /// String `idx` (1-based) as ethercrab documents it: NULs removed, non-ASCII replaced by '?'.
    pub fn expected_string(&self, idx: u8, _cap: usize) -> Option<String> {
        if idx == 0 || !self.order.contains(&Cat::Strings) {
            return None;
        }
        let s = self.strings.get(idx as usize - 1)?;
        Some(
            s.iter()
                .filter(|b| **b != 0)
                .map(|b| if b.is_ascii() { *b as char } else { '?' })
                .collect(),
        )
    }

    pub fn pdo_bit_len(p: &PdoDesc) -> u32 {
        p.entries.iter().map(|b| u32::from(*b)).sum()
    }
}

/// A plain EtherCAT terminal with `inputs`/`outputs` bytes of process data (no mailbox), like a
/// Beckhoff digital I/O terminal.
pub fn simple_io(product: u32, inputs_bits: &[u8], outputs_bits: &[u8]) -> DeviceDesc {
    let mut d = DeviceDesc {
        product,
        ..Default::default()
    };
    let mut sms = Vec::new();
    // SM0 outputs at 0x0f00, SM1 inputs at 0x1000 (Beckhoff style for simple terminals)
    if !outputs_bits.is_empty() {
        let bits: u32 = outputs_bits.iter().map(|b| u32::from(*b)).sum();
        sms.push(SmDesc { start: 0x0f00, len: ((bits + 7) / 8) as u16, control: 0x44, enable: 1, usage: 3 });
        d.rx_pdos.push(PdoDesc { index: 0x1600, sm: (sms.len() - 1) as u8, entries: outputs_bits.to_vec() });
        d.fmmus.push(1);
    }
    if !inputs_bits.is_empty() {
        let bits: u32 = inputs_bits.iter().map(|b| u32::from(*b)).sum();
        sms.push(SmDesc { start: 0x1000, len: ((bits + 7) / 8) as u16, control: 0x00, enable: 1, usage: 4 });
        d.tx_pdos.push(PdoDesc { index: 0x1a00, sm: (sms.len() - 1) as u8, entries: inputs_bits.to_vec() });
        d.fmmus.push(2);
    }
    d.sms = sms;
    d
}
