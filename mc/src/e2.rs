//! E2 `hist`: explicit-state search over operation histories of the real PDU loop.
//!
//! A state is the history that reaches it. To expand a state a *fresh* storage is built, the
//! history is replayed on the real code and one more operation is applied. States are deduplicated
//! by a canonical key made of every field the PDU loop's future behaviour depends on.

use crate::clock;
use crate::core::{fnv, fnv_mix};
use crate::e1::{expected_pdus, make_response, panic_msg, Req, Sto, WakeFlag, DATA};
use ethercrab::error::{Error, PduError};
use ethercrab::verif as vf;
use ethercrab::{Command, PduLoop, PduRx, PduTx, ReceiveAction};
use std::collections::{BTreeMap, HashSet};
use std::future::Future;
use std::panic::{catch_unwind, AssertUnwindSafe};
use std::pin::Pin;
use std::sync::atomic::{AtomicBool, Ordering};
use std::sync::Arc;
use std::task::{Context, Poll, Waker};
use std::time::Duration;

#[derive(Clone, Copy, Debug, PartialEq, Eq, Hash, PartialOrd, Ord)]
pub enum Op {
    Alloc,
    Push(u8),
    Mark(u8, u8),
    Poll(u8),
    TxOk,
    TxPartial,
    TxErr,
    RxDeliver(u8),
    RxDup(u8),
    RxGarbage(u8),
    Tick,
    Drop(u8),
    Read(u8),
    Reset,
}

enum H {
    Created {
        frame: vf::CreatedFrame<'static>,
        tag: u16,
        handle: Option<vf::PduResponseHandle>,
    },
    Future {
        fut: Pin<Box<vf::ReceiveFrameFut<'static>>>,
        handle: vf::PduResponseHandle,
        tag: u16,
        flag: Arc<WakeFlag>,
        retries: u8,
        ticks_seen: u8,
        polled_since_tick: bool,
    },
    Response {
        frame: vf::ReceivedFrame<'static>,
        handle: vf::PduResponseHandle,
        tag: u16,
    },
}

pub struct WireF {
    pub bytes: Vec<u8>,
    pub tag: u16,
}

pub struct Machine {
    sto: Option<Sto>,
    pub n: usize,
    pl: *mut PduLoop<'static>,
    tx: Option<PduTx<'static>>,
    rx: Option<PduRx<'static>>,
    handles: Vec<Option<H>>,
    pub wire: Vec<WireF>,
    next_tag: u16,
    pub max_handles: usize,
    pub max_wire: usize,
    pub events: Vec<String>,
    pub violations: Vec<(String, String)>,
    pub completed_ok: u32,
}

#[derive(Clone, Debug, PartialEq, Eq)]
pub struct Snap {
    pub slots: Vec<(u8, u16, usize, Vec<u8>)>,
    pub frame_idx: u8,
    pub pdu_idx: u8,
}

const GARBAGE_KINDS: u8 = 5;

impl Machine {
    pub fn new(n: usize, max_handles: usize) -> Self {
        clock::reset();
        let sto = Sto::new(n);
        let (tx, rx, pl) = sto.split();
        let pl = Box::into_raw(Box::new(pl));
        Self {
            sto: Some(sto),
            n,
            pl,
            tx: Some(tx),
            rx: Some(rx),
            handles: (0..max_handles).map(|_| None).collect(),
            wire: Vec::new(),
            next_tag: 1,
            max_handles,
            max_wire: 2,
            events: Vec::new(),
            violations: Vec::new(),
            completed_ok: 0,
        }
    }

    fn pl(&self) -> &'static PduLoop<'static> {
        unsafe { &*self.pl }
    }

    pub fn live(&self) -> usize {
        self.handles.iter().filter(|h| h.is_some()).count()
    }

    pub fn snapshot(&self) -> Snap {
        let mut slots = Vec::new();
        let mut buf = [0u8; DATA];
        for i in 0..self.n {
            let (st, fp, len) = vf::slot_snapshot(self.pl(), i, &mut buf);
            slots.push((st, fp, len, buf.to_vec()));
        }
        let (_, _, _, _, fi, pi) = vf::storage_layout(self.pl());
        Snap {
            slots,
            frame_idx: fi,
            pdu_idx: pi,
        }
    }

    /// Operations enabled in this state (a small finite menu).
    pub fn enabled(&self) -> Vec<Op> {
        let mut v = Vec::new();
        if self.live() < self.max_handles {
            v.push(Op::Alloc);
        }
        for (i, h) in self.handles.iter().enumerate() {
            let i = i as u8;
            match h {
                None => {}
                Some(H::Created { handle, .. }) => {
                    if handle.is_none() {
                        v.push(Op::Push(i));
                    } else {
                        v.push(Op::Mark(i, 0));
                        v.push(Op::Mark(i, 1));
                    }
                    v.push(Op::Drop(i));
                }
                Some(H::Future { .. }) => {
                    v.push(Op::Poll(i));
                    v.push(Op::Drop(i));
                }
                Some(H::Response { .. }) => {
                    v.push(Op::Read(i));
                    v.push(Op::Drop(i));
                }
            }
        }
        let snap = self.snapshot();
        if snap.slots.iter().any(|s| s.0 == 2) {
            v.push(Op::TxOk);
            v.push(Op::TxPartial);
            v.push(Op::TxErr);
        }
        for i in 0..self.wire.len() {
            v.push(Op::RxDeliver(i as u8));
            v.push(Op::RxDup(i as u8));
        }
        for g in 0..GARBAGE_KINDS {
            v.push(Op::RxGarbage(g));
        }
        if clock::next_deadline().is_some() {
            v.push(Op::Tick);
        }
        if self.live() == 0 {
            v.push(Op::Reset);
        }
        v
    }

    fn garbage(&self, kind: u8) -> Vec<u8> {
        // a valid-looking response whose first index matches no outstanding request, a non
        // EtherCAT frame, an echo of our own transmission, a truncated frame
        let mut f = vec![0xffu8; 6];
        if kind == 4 {
            // a genuine in-flight response padded beyond the frame size: matches an awaiting
            // request by index but cannot be stored
            if let Some(w) = self.wire.first() {
                let mut b = w.bytes.clone();
                let total = 60usize; // datagram area longer than the 64-byte slot can hold
                let hdr = (u16::from_le_bytes([b[14], b[15]]) & !0x07ff) | total as u16;
                b[14..16].copy_from_slice(&hdr.to_le_bytes());
                b.resize(16 + total, 0);
                return b;
            }
        }
        match kind {
            0 => {
                f.extend_from_slice(&[0x12, 0x10, 0x10, 0x10, 0x10, 0x10, 0x88, 0xa4]);
                f.extend_from_slice(&[0x0e, 0x10]);
                f.extend_from_slice(&[0x04, 0xee, 0x00, 0x10, 0x00, 0x00, 0x02, 0x00, 0, 0, 1, 2, 1, 0]);
            }
            1 => {
                f.extend_from_slice(&[0x12, 0x10, 0x10, 0x10, 0x10, 0x10, 0x08, 0x00]);
                f.extend_from_slice(&[0x45, 0, 0, 20, 0, 0, 0, 0, 64, 17, 0, 0, 10, 0, 0, 1, 10, 0, 0, 2]);
            }
            2 => {
                f.extend_from_slice(&[0x10, 0x10, 0x10, 0x10, 0x10, 0x10, 0x88, 0xa4]);
                f.extend_from_slice(&[0x0e, 0x10]);
                f.extend_from_slice(&[0x04, 0x00, 0x00, 0x10, 0x00, 0x00, 0x02, 0x00, 0, 0, 1, 2, 1, 0]);
            }
            _ => {
                f.extend_from_slice(&[0x12, 0x10, 0x10, 0x10, 0x10, 0x10, 0x88, 0xa4]);
                f.extend_from_slice(&[0x0e, 0x10, 0x04]);
            }
        }
        f
    }

    /// Apply one operation on the real code. Returns a short description of what happened.
    pub fn apply(&mut self, op: Op) -> String {
        let r = catch_unwind(AssertUnwindSafe(|| self.apply_inner(op)));
        match r {
            Ok(s) => s,
            Err(p) => {
                let m = panic_msg(&p);
                self.violations
                    .push((format!("panic op={:?}", op_kind(op)), format!("{:?} panicked: {}", op, m)));
                format!("PANIC {}", m)
            }
        }
    }

    fn apply_inner(&mut self, op: Op) -> String {
        match op {
            Op::Alloc => {
                let live = self.live();
                match vf::alloc_frame(self.pl()) {
                    Ok(frame) => {
                        let tag = self.next_tag;
                        self.next_tag += 1;
                        let idx = self.handles.iter().position(|h| h.is_none()).unwrap();
                        self.handles[idx] = Some(H::Created {
                            frame,
                            tag,
                            handle: None,
                        });
                        format!("alloc -> h{} (tag {})", idx, tag)
                    }
                    Err(e) => {
                        if live < self.n {
                            self.violations.push((
                                "alloc-failed-with-free-capacity".into(),
                                format!(
                                    "allocation failed with {:?} although only {} of {} slots are held by live handles; slots: {}",
                                    e,
                                    live,
                                    self.n,
                                    self.describe_slots()
                                ),
                            ));
                        }
                        format!("alloc -> Err({:?})", e)
                    }
                }
            }
            Op::Push(i) => {
                if let Some(H::Created { frame, tag, handle }) = self.handles[i as usize].as_mut() {
                    let exp = expected_pdus(*tag, &Req::Read { len: 2 });
                    match vf::push_pdu(frame, Command::fprd(exp[0].adp, exp[0].ado).into(), (), Some(2)) {
                        Ok(h) => {
                            *handle = Some(h);
                            "push ok".into()
                        }
                        Err(e) => format!("push Err({:?})", e),
                    }
                } else {
                    "push n/a".into()
                }
            }
            Op::Mark(i, r) => {
                if let Some(H::Created { frame, tag, handle }) = self.handles[i as usize].take() {
                    let fut = vf::mark_sendable(frame, self.pl(), Duration::from_micros(100), r as usize);
                    vf::wake_sender(self.pl());
                    self.handles[i as usize] = Some(H::Future {
                        fut: Box::pin(fut),
                        handle: handle.unwrap(),
                        tag,
                        flag: Arc::new(WakeFlag::new()),
                        retries: r,
                        ticks_seen: 0,
                        polled_since_tick: false,
                    });
                    format!("mark_sendable(retries {})", r)
                } else {
                    "mark n/a".into()
                }
            }
            Op::Poll(i) => {
                let Some(H::Future { mut fut, handle, tag, flag, retries, ticks_seen, .. }) =
                    self.handles[i as usize].take()
                else {
                    return "poll n/a".into();
                };
                flag.clear();
                let waker = Waker::from(flag.clone());
                let mut cx = Context::from_waker(&waker);
                match fut.as_mut().poll(&mut cx) {
                    Poll::Pending => {
                        self.handles[i as usize] = Some(H::Future {
                            fut,
                            handle,
                            tag,
                            flag,
                            retries,
                            ticks_seen,
                            polled_since_tick: true,
                        });
                        "poll -> Pending".into()
                    }
                    Poll::Ready(Ok(frame)) => {
                        drop(fut);
                        self.handles[i as usize] = Some(H::Response { frame, handle, tag });
                        "poll -> Ready(Ok)".into()
                    }
                    Poll::Ready(Err(e)) => {
                        drop(fut);
                        format!("poll -> Ready(Err({:?}))", e)
                    }
                }
            }
            Op::TxOk | Op::TxPartial | Op::TxErr => {
                let tx = self.tx.as_mut().unwrap();
                match tx.next_sendable_frame() {
                    None => "tx: nothing sendable".into(),
                    Some(f) => {
                        let mut copy = Vec::new();
                        let res = f.send_blocking(|b| {
                            copy = b.to_vec();
                            match op {
                                Op::TxOk => Ok(b.len()),
                                Op::TxPartial => Ok(b.len() - 1),
                                _ => Err(Error::SendFrame),
                            }
                        });
                        if res.is_ok() {
                            if let Some(resp) = make_response(&copy) {
                                let tag = u16::from_le_bytes([copy[18], copy[19]]).wrapping_sub(0x1000);
                                if self.wire.len() >= self.max_wire {
                                    self.wire.remove(0);
                                }
                                self.wire.push(WireF { bytes: resp, tag });
                            }
                        }
                        format!("tx send -> {:?}", res.map_err(|e| format!("{:?}", e)))
                    }
                }
            }
            Op::RxDeliver(i) | Op::RxDup(i) => {
                if (i as usize) >= self.wire.len() {
                    return "rx n/a".into();
                }
                let f = if matches!(op, Op::RxDeliver(_)) {
                    self.wire.remove(i as usize)
                } else {
                    WireF {
                        bytes: self.wire[i as usize].bytes.clone(),
                        tag: self.wire[i as usize].tag,
                    }
                };
                let res = self.rx.as_mut().unwrap().receive_frame(&f.bytes);
                format!("rx(tag {}) -> {:?}", f.tag, res)
            }
            Op::RxGarbage(g) => {
                let bytes = self.garbage(g);
                let before = self.snapshot();
                let res = self.rx.as_mut().unwrap().receive_frame(&bytes);
                let after = self.snapshot();
                if before != after && g != 4 {
                    self.violations.push((
                        format!("garbage-changed-state kind={}", g),
                        format!("garbage frame kind {} changed the storage ({:?})", g, res),
                    ));
                }
                if matches!(res, Ok(ReceiveAction::Processed)) {
                    self.violations.push((
                        format!("garbage-accepted kind={}", g),
                        format!("garbage frame kind {} was accepted", g),
                    ));
                }
                format!("rx garbage {} -> {:?}", g, res)
            }
            Op::Tick => {
                let t = clock::fire_next();
                for h in self.handles.iter_mut().flatten() {
                    if let H::Future { ticks_seen, polled_since_tick, .. } = h {
                        *ticks_seen = ticks_seen.saturating_add(1);
                        *polled_since_tick = false;
                    }
                }
                format!("tick -> {:?}", t)
            }
            Op::Drop(i) => {
                let h = self.handles[i as usize].take();
                let what = match &h {
                    Some(H::Created { .. }) => "created",
                    Some(H::Future { .. }) => "future",
                    Some(H::Response { .. }) => "response",
                    None => "nothing",
                };
                drop(h);
                format!("drop {}", what)
            }
            Op::Read(i) => {
                if let Some(H::Response { frame, handle, tag }) = self.handles[i as usize].take() {
                    let exp = expected_pdus(tag, &Req::Read { len: 2 });
                    match frame.first_pdu(handle) {
                        Ok(pdu) => {
                            let got = pdu.to_vec();
                            if got != exp[0].resp_data {
                                self.violations.push((
                                    "response-bytes-wrong".into(),
                                    format!("request tag {} read {:02x?}, expected {:02x?}", tag, got, exp[0].resp_data),
                                ));
                            } else {
                                self.completed_ok += 1;
                            }
                            "read ok".into()
                        }
                        Err(e) => format!("read Err({:?})", e),
                    }
                } else {
                    "read n/a".into()
                }
            }
            Op::Reset => {
                if self.live() == 0 {
                    unsafe { (*self.pl).reset() };
                    self.wire.clear();
                    "reset".into()
                } else {
                    "reset n/a".into()
                }
            }
        }
    }

    pub fn describe_slots(&self) -> String {
        let s = self.snapshot();
        s.slots
            .iter()
            .enumerate()
            .map(|(i, x)| format!("slot{}={} first_pdu={:#06x}", i, crate::e1::st_name(x.0), x.1))
            .collect::<Vec<_>>()
            .join(", ")
    }

    /// Canonical key: every field future behaviour depends on (see DESIGN.md 3.3).
    pub fn canon(&self) -> u64 {
        let s = self.snapshot();
        let mut h = 0xcbf29ce484222325u64;
        for x in &s.slots {
            h = fnv_mix(h, u64::from(x.0));
            h = fnv_mix(h, u64::from(x.1));
            h = fnv_mix(h, x.2 as u64);
            h = fnv_mix(h, fnv(&x.3));
        }
        h = fnv_mix(h, u64::from(s.frame_idx % self.n as u8));
        h = fnv_mix(h, u64::from(s.pdu_idx));
        for hd in &self.handles {
            match hd {
                None => h = fnv_mix(h, 0),
                Some(H::Created { frame, handle, tag }) => {
                    h = fnv_mix(h, 1);
                    h = fnv_mix(h, u64::from(frame.storage_slot_index()));
                    h = fnv_mix(h, u64::from(handle.is_some()));
                    h = fnv_mix(h, u64::from(*tag));
                }
                Some(H::Future { tag, flag, retries, ticks_seen, polled_since_tick, handle, .. }) => {
                    h = fnv_mix(h, 2);
                    h = fnv_mix(h, u64::from(*tag));
                    h = fnv_mix(h, u64::from(flag.get()));
                    h = fnv_mix(h, u64::from(*retries));
                    h = fnv_mix(h, u64::from(*ticks_seen));
                    h = fnv_mix(h, u64::from(*polled_since_tick));
                    h = fnv_mix(h, u64::from(handle.pdu_idx));
                }
                Some(H::Response { tag, handle, .. }) => {
                    h = fnv_mix(h, 3);
                    h = fnv_mix(h, u64::from(*tag));
                    h = fnv_mix(h, u64::from(handle.pdu_idx));
                }
            }
        }
        for f in &self.wire {
            h = fnv_mix(h, fnv(&f.bytes));
        }
        // order of armed deadlines relative to now
        h = fnv_mix(h, clock::pending_timers() as u64);
        h = fnv_mix(h, clock::next_deadline().map(|d| d - clock::now()).unwrap_or(u64::MAX));
        h = fnv_mix(h, u64::from(self.next_tag));
        h
    }

    /// Drain-and-reallocate probe: drop every handle, then exactly N allocations must succeed and
    /// the next one must fail.
    pub fn probe(mut self) -> Result<(), (String, String)> {
        let before = self.describe_slots();
        for h in self.handles.iter_mut() {
            let x = h.take();
            if let Err(p) = catch_unwind(AssertUnwindSafe(move || drop(x))) {
                return Err(("panic-in-drop".into(), format!("dropping a handle panicked: {}", panic_msg(&p))));
            }
        }
        let after_drop = self.describe_slots();
        let mut got = Vec::new();
        for k in 0..self.n {
            match vf::alloc_frame(self.pl()) {
                Ok(f) => got.push(f),
                Err(e) => {
                    let stuck: Vec<&str> = self
                        .snapshot()
                        .slots
                        .iter()
                        .filter(|s| !matches!(s.0, 0 | 1))
                        .map(|s| crate::e1::st_name(s.0))
                        .collect();
                    return Err((
                        format!("capacity-lost stuck={}", stuck.join("+")),
                        format!(
                            "after dropping every handle only {} of {} frames can be allocated ({:?}); slots before drop: [{}], after drop: [{}]",
                            k, self.n, e, before, after_drop
                        ),
                    ));
                }
            }
        }
        if vf::alloc_frame(self.pl()).is_ok() {
            return Err((
                "capacity-exceeded".into(),
                format!("more than {} frames could be allocated", self.n),
            ));
        }
        drop(got);
        Ok(())
    }

    /// Frames that are currently awaiting a response: (slot, index of the first datagram of the
    /// request as it went out on the wire - read from the request bytes in the buffer, not from
    /// the implementation's lookup key).
    pub fn sent_slots(&self) -> Vec<(usize, u8)> {
        self.snapshot()
            .slots
            .iter()
            .enumerate()
            .filter(|(_, s)| s.0 == 4)
            .map(|(i, s)| (i, s.3[17]))
            .collect()
    }

    /// Raw bytes of the whole storage (every frame element including headers and padding).
    pub fn raw_memory(&self) -> Vec<Vec<u8>> {
        let (n, _dl, base, stride, _, _) = vf::storage_layout(self.pl());
        (0..n)
            .map(|i| unsafe { std::slice::from_raw_parts((base + i * stride) as *const u8, stride).to_vec() })
            .collect()
    }

    pub fn receive(&mut self, bytes: &[u8]) -> Result<Result<ReceiveAction, Error>, String> {
        let rx = self.rx.as_mut().unwrap();
        catch_unwind(AssertUnwindSafe(|| rx.receive_frame(bytes))).map_err(|p| panic_msg(&p))
    }
}

impl Drop for Machine {
    fn drop(&mut self) {
        for h in self.handles.iter_mut() {
            let x = h.take();
            let _ = catch_unwind(AssertUnwindSafe(move || drop(x)));
        }
        self.tx.take();
        self.rx.take();
        unsafe {
            drop(Box::from_raw(self.pl));
            if let Some(s) = self.sto.take() {
                s.free();
            }
        }
        clock::reset();
    }
}

pub fn op_kind(op: Op) -> &'static str {
    match op {
        Op::Alloc => "alloc",
        Op::Push(_) => "push",
        Op::Mark(_, _) => "mark",
        Op::Poll(_) => "poll",
        Op::TxOk => "tx-ok",
        Op::TxPartial => "tx-partial",
        Op::TxErr => "tx-err",
        Op::RxDeliver(_) => "rx",
        Op::RxDup(_) => "rx-dup",
        Op::RxGarbage(_) => "rx-garbage",
        Op::Tick => "tick",
        Op::Drop(_) => "drop",
        Op::Read(_) => "read",
        Op::Reset => "reset",
    }
}

impl WakeFlag {
    pub fn new() -> Self {
        WakeFlag(AtomicBool::new(false))
    }
    pub fn clear(&self) {
        self.0.store(false, Ordering::SeqCst);
    }
    pub fn get(&self) -> bool {
        self.0.load(Ordering::SeqCst)
    }
}

/// Rebuild the machine reached by `hist`.
pub fn build(n: usize, max_handles: usize, hist: &[Op]) -> Machine {
    let mut m = Machine::new(n, max_handles);
    for op in hist {
        m.apply(*op);
    }
    m
}

pub struct BfsStats {
    pub states: u64,
    pub transitions: u64,
    pub depth_completed: usize,
    pub complete: bool,
    pub per_depth: Vec<u64>,
    pub slot_state_combinations: usize,
    pub ops_by_kind: BTreeMap<String, u64>,
    /// History of every distinct state, in discovery order.
    pub all_states: Vec<Vec<Op>>,
}

/// Breadth-first search. `visit` is called once for every distinct state with its history; it may
/// return violations `(signature, message)`. Returns stats and all violations with the history
/// that produced them.
pub fn bfs(
    n: usize,
    max_handles: usize,
    max_depth: usize,
    max_states: u64,
    workers: usize,
    visit: &(dyn Fn(&[Op], Machine) -> Vec<(String, String)> + Sync),
) -> (BfsStats, Vec<(String, String, Vec<Op>)>) {
    let mut seen: HashSet<u64> = HashSet::new();
    let mut frontier: Vec<Vec<Op>> = vec![Vec::new()];
    let mut violations: Vec<(String, String, Vec<Op>)> = Vec::new();
    let mut stats = BfsStats {
        states: 0,
        transitions: 0,
        depth_completed: 0,
        complete: true,
        per_depth: Vec::new(),
        slot_state_combinations: 0,
        ops_by_kind: BTreeMap::new(),
        all_states: vec![Vec::new()],
    };
    let mut combos: HashSet<Vec<u8>> = HashSet::new();
    {
        let m = build(n, max_handles, &[]);
        seen.insert(m.canon());
        combos.insert(m.snapshot().slots.iter().map(|s| s.0).collect());
        for (s, msg) in visit(&[], m) {
            violations.push((s, msg, Vec::new()));
        }
        stats.states = 1;
        stats.per_depth.push(1);
    }
    for depth in 0..max_depth {
        // expand every frontier state in parallel; results are merged in frontier order so the
        // search is deterministic regardless of the worker count
        type Out = Vec<(Vec<Op>, u64, Vec<u8>, Vec<(String, String)>)>;
        let chunks: Vec<&[Vec<Op>]> = frontier.chunks(((frontier.len() + workers - 1) / workers).max(1)).collect();
        let results: Vec<Out> = std::thread::scope(|s| {
            let hs: Vec<_> = chunks
                .iter()
                .map(|chunk| {
                    s.spawn(move || {
                        let mut out: Out = Vec::new();
                        for hist in chunk.iter() {
                            let m = build(n, max_handles, hist);
                            let ops = m.enabled();
                            drop(m);
                            for op in ops {
                                let mut m = build(n, max_handles, hist);
                                m.apply(op);
                                let key = m.canon();
                                let combo: Vec<u8> = m.snapshot().slots.iter().map(|s| s.0).collect();
                                let mut v: Vec<(String, String)> = std::mem::take(&mut m.violations);
                                let mut h2 = hist.clone();
                                h2.push(op);
                                v.extend(visit(&h2, m));
                                out.push((h2, key, combo, v));
                            }
                        }
                        out
                    })
                })
                .collect();
            hs.into_iter().map(|h| h.join().expect("bfs worker")).collect()
        });
        let mut next: Vec<Vec<Op>> = Vec::new();
        for out in results {
            for (hist, key, combo, v) in out {
                stats.transitions += 1;
                *stats
                    .ops_by_kind
                    .entry(op_kind(*hist.last().unwrap()).to_string())
                    .or_insert(0) += 1;
                for (s, msg) in v {
                    if !violations.iter().any(|x| x.0 == s) {
                        violations.push((s, msg, hist.clone()));
                    }
                }
                if seen.insert(key) {
                    combos.insert(combo);
                    stats.states += 1;
                    stats.all_states.push(hist.clone());
                    next.push(hist);
                }
            }
        }
        stats.per_depth.push(next.len() as u64);
        stats.depth_completed = depth + 1;
        frontier = next;
        if frontier.is_empty() {
            break;
        }
        if stats.states >= max_states {
            stats.complete = false;
            break;
        }
    }
    stats.slot_state_combinations = combos.len();
    (stats, violations)
}

#[allow(dead_code)]
pub fn unused(_: PduError) {}

pub fn parse_op(t: &str) -> Option<Op> {
    let t = t.trim();
    let (name, args): (&str, Vec<u8>) = match t.find('(') {
        Some(i) => (
            &t[..i],
            t[i + 1..t.len() - 1]
                .split(',')
                .filter_map(|x| x.trim().parse().ok())
                .collect(),
        ),
        None => (t, Vec::new()),
    };
    Some(match (name, args.as_slice()) {
        ("Alloc", []) => Op::Alloc,
        ("Push", [a]) => Op::Push(*a),
        ("Mark", [a, b]) => Op::Mark(*a, *b),
        ("Poll", [a]) => Op::Poll(*a),
        ("TxOk", []) => Op::TxOk,
        ("TxPartial", []) => Op::TxPartial,
        ("TxErr", []) => Op::TxErr,
        ("RxDeliver", [a]) => Op::RxDeliver(*a),
        ("RxDup", [a]) => Op::RxDup(*a),
        ("RxGarbage", [a]) => Op::RxGarbage(*a),
        ("Tick", []) => Op::Tick,
        ("Drop", [a]) => Op::Drop(*a),
        ("Read", [a]) => Op::Read(*a),
        ("Reset", []) => Op::Reset,
        _ => return None,
    })
}

/// Replay an E2 history step by step, printing what the real code did, then run the probe.
pub fn replay_history(n: usize, k: usize, hist: &[Op]) -> Vec<(String, String)> {
    let mut m = Machine::new(n, k);
    for op in hist {
        let r = m.apply(*op);
        println!("{:?}: {}   [{}]", op, r, m.describe_slots());
    }
    let mut v = std::mem::take(&mut m.violations);
    match m.probe() {
        Ok(()) => println!("probe: ok"),
        Err((s, msg)) => {
            println!("probe: {}", msg);
            v.push((s, msg));
        }
    }
    v
}
