//! In-memory EEPROM data provider for the crate's own reader/parser (verif hook H5), with an
//! access budget so that non-terminating walks become observable.

use ethercrab::error::{EepromError, Error};
use ethercrab::verif::EepromDataProvider;
use std::cell::{Cell, RefCell};
use std::future::Future;
use std::rc::Rc;
use std::task::{Context, Poll, RawWaker, RawWakerVTable, Waker};

#[derive(Clone)]
pub struct MemEeprom {
    pub img: Rc<RefCell<Vec<u8>>>,
    pub chunk: usize,
    pub accesses: Rc<Cell<u64>>,
    pub budget: u64,
    pub writes: Rc<RefCell<Vec<(u16, [u8; 2])>>>,
    /// write attempts answered with "command error" are a device matter; the in-memory provider
    /// always succeeds
    pub write_limit_word: u16,
}

impl MemEeprom {
    pub fn new(img: Vec<u8>, chunk: usize, budget: u64) -> Self {
        Self {
            img: Rc::new(RefCell::new(img)),
            chunk,
            accesses: Rc::new(Cell::new(0)),
            budget,
            writes: Rc::new(RefCell::new(Vec::new())),
            write_limit_word: 0xffff,
        }
    }

    pub fn used(&self) -> u64 {
        self.accesses.get()
    }

    pub fn exhausted(&self) -> bool {
        self.accesses.get() > self.budget
    }
}

impl EepromDataProvider for MemEeprom {
    async fn read_chunk(&mut self, start_word: u16) -> Result<impl core::ops::Deref<Target = [u8]>, Error> {
        self.accesses.set(self.accesses.get() + 1);
        if self.accesses.get() > self.budget {
            // the walk did not end within the budget: stop it so the harness can report it
            return Err(Error::Eeprom(EepromError::SectionUnderrun));
        }
        let img = self.img.borrow();
        let mut v = Vec::with_capacity(self.chunk);
        for i in 0..self.chunk {
            // 16-bit word address space; bytes beyond the image read as 0xFF
            let a = (usize::from(start_word) * 2 + i) % 0x20000;
            v.push(img.get(a).copied().unwrap_or(0xff));
        }
        Ok(v)
    }

    async fn write_word(&mut self, start_word: u16, data: [u8; 2]) -> Result<(), Error> {
        self.accesses.set(self.accesses.get() + 1);
        self.writes.borrow_mut().push((start_word, data));
        let mut img = self.img.borrow_mut();
        let a = usize::from(start_word) * 2;
        if a + 1 < img.len() {
            img[a] = data[0];
            img[a + 1] = data[1];
        }
        Ok(())
    }

    async fn clear_errors(&self) -> Result<(), Error> {
        Ok(())
    }
}

fn noop_waker() -> Waker {
    fn clone(_: *const ()) -> RawWaker {
        RawWaker::new(std::ptr::null(), &VTABLE)
    }
    fn noop(_: *const ()) {}
    static VTABLE: RawWakerVTable = RawWakerVTable::new(clone, noop, noop, noop);
    unsafe { Waker::from_raw(RawWaker::new(std::ptr::null(), &VTABLE)) }
}

/// Drive a future that never really waits (the in-memory provider is always ready).
pub fn block_on_ready<F: Future>(fut: F) -> Result<F::Output, String> {
    let waker = noop_waker();
    let mut cx = Context::from_waker(&waker);
    let mut fut = Box::pin(fut);
    for _ in 0..8 {
        if let Poll::Ready(v) = fut.as_mut().poll(&mut cx) {
            return Ok(v);
        }
    }
    Err("future over the in-memory provider returned Pending".into())
}
