//! C07: one process-data cycle moves the whole image, each byte once, to the right place.

use crate::eeprom::simple_io;
use crate::net::{timeouts, Net, Stop};
use crate::report::{Report, Tier};
use crate::sim::{Device, Dg, Segment};
use ethercrab::error::Error;
use ethercrab::subdevice_group::DcConfiguration;
use ethercrab::{DcSync, MainDevice, MainDeviceConfig, RetryBehaviour, SubDeviceGroup, SubDeviceState};
use serde_json::json;
use std::collections::BTreeMap;
use std::time::Duration;

#[derive(Clone, Copy, Debug, PartialEq, Eq)]
pub enum Variant {
    Plain,
    /// tx_rx_sync_system_time with a reference clock present
    SyncRef,
    /// tx_rx_sync_system_time without any DC device (falls back to the plain cycle)
    SyncNoRef,
    Dc,
}

#[derive(Clone, Debug)]
pub struct Layout {
    /// per device: (input bytes, output bytes)
    pub devs: Vec<(usize, usize)>,
    /// the group under test is the second group (non-zero logical start)
    pub second_group: bool,
}

const MAXD: usize = 8;
const PDI: usize = 128;

fn in_pattern(d: usize, i: usize) -> u8 {
    (0x80 | ((d * 29 + i * 7 + 1) & 0x7f)) as u8
}
fn out_pattern(d: usize, i: usize, round: usize) -> u8 {
    (0x40 | ((d * 13 + i * 5 + round * 3 + 2) & 0x3f)) as u8
}

fn segment_for(layout: &Layout, dc: bool) -> Segment {
    let mut devs = Vec::new();
    // the first group (if any) is a single 3-byte device so that the group under test starts at a
    // non-zero logical address
    if layout.second_group {
        let mut d = Device::new(simple_io(0x0999, &[8, 8], &[8]).image());
        d.dc.supported = dc;
        d.dc.enhanced = dc;
        d.dc.bits64 = dc;
        devs.push(d);
    }
    for (k, (i, o)) in layout.devs.iter().enumerate() {
        let ib: Vec<u8> = vec![8; *i];
        let ob: Vec<u8> = vec![8; *o];
        let mut d = Device::new(simple_io(0x1000 + k as u32, &ib, &ob).image());
        if dc && (k == 0 || k % 2 == 1) {
            d.dc.supported = true;
            d.dc.enhanced = true;
            d.dc.bits64 = k % 4 != 3;
        }
        devs.push(d);
    }
    Segment::new(devs)
}

#[derive(Default)]
struct Groups {
    first: SubDeviceGroup<2, 16>,
    main: SubDeviceGroup<MAXD, PDI>,
}

struct CycleObs {
    frames: Vec<Vec<Dg>>,
    wkc: u16,
    states: Vec<SubDeviceState>,
    time: Option<u64>,
    inputs: Vec<Vec<u8>>,
    outputs: Vec<Vec<u8>>,
}

/// Check one observed cycle against the oracle. Returns violations.
fn judge(
    layout: &Layout,
    variant: Variant,
    data: usize,
    pdi_start: u32,
    obs: &CycleObs,
    seg: &Segment,
    dev_base: usize,
    round: usize,
    ref_addr: Option<u16>,
) -> Vec<(String, String)> {
    let mut v: Vec<(String, String)> = Vec::new();
    let total_in: usize = layout.devs.iter().map(|d| d.0).sum();
    let total_out: usize = layout.devs.iter().map(|d| d.1).sum();
    let len = total_in + total_out;
    let ndev = layout.devs.len();
    let has_dc = matches!(variant, Variant::Dc | Variant::SyncRef);
    // ---- wire: tiling of the logical window -------------------------------------------------
    let mut cursor = pdi_start as u64;
    let mut wkc_sum: u32 = 0;
    let mut frmw = 0;
    let mut state_checks: Vec<u16> = Vec::new();
    for (fi, frame) in obs.frames.iter().enumerate() {
        let bytes: usize = 16 + frame.iter().map(|d| 12 + d.sent.len()).sum::<usize>();
        if bytes > data {
            v.push(("frame-exceeds-size".into(), format!("frame {} of the cycle is {} bytes with frame size {}", fi, bytes, data)));
        }
        if frame.is_empty() {
            v.push(("empty-frame-sent".into(), format!("frame {} of the cycle carries no datagram", fi)));
        }
        for (di, d) in frame.iter().enumerate() {
            match d.cmd {
                12 => {
                    let a = d.logical() as u64;
                    if a != cursor {
                        v.push((
                            if a < cursor { "lrw-overlap".into() } else { "lrw-gap".to_string() },
                            format!("process-data datagram starts at {:#x}, expected {:#x} (window starts at {:#x})", a, cursor, pdi_start),
                        ));
                    }
                    if d.sent.is_empty() {
                        v.push(("lrw-empty".into(), "empty process-data datagram".into()));
                    }
                    cursor = a + d.sent.len() as u64;
                    wkc_sum += u32::from(d.wkc);
                }
                14 => {
                    frmw += 1;
                    if fi != 0 || di != 0 {
                        v.push(("dc-datagram-not-first".into(), format!("time-distribution datagram at frame {} position {}", fi, di)));
                    }
                    if Some(d.adp) != ref_addr || d.ado != 0x0910 || d.sent.len() != 8 {
                        v.push(("dc-datagram-wrong-target".into(), format!("FRMW adp {:#06x} ado {:#06x} len {} (reference is {:?})", d.adp, d.ado, d.sent.len(), ref_addr)));
                    }
                    if let Some(t) = obs.time {
                        let mut b = [0u8; 8];
                        b.copy_from_slice(&d.returned[..8]);
                        if u64::from_le_bytes(b) != t {
                            v.push(("dc-time-not-reported".into(), format!("network answered time {} but the cycle reported {}", u64::from_le_bytes(b), t)));
                        }
                    }
                }
                4 if d.ado == 0x0130 => state_checks.push(d.adp),
                _ => v.push(("unexpected-datagram".into(), format!("cycle sent command {} adp {:#06x} ado {:#06x}", d.cmd, d.adp, d.ado))),
            }
        }
    }
    if cursor != pdi_start as u64 + len as u64 {
        v.push((
            "image-not-fully-sent".into(),
            format!("process-data datagrams cover {:#x}..{:#x}, the image is {:#x}..{:#x}", pdi_start, cursor, pdi_start, pdi_start as u64 + len as u64),
        ));
    }
    if has_dc && frmw != 1 {
        v.push(("dc-datagram-count".into(), format!("{} time-distribution datagrams in one cycle", frmw)));
    }
    if !has_dc && frmw != 0 {
        v.push(("dc-datagram-count".into(), format!("{} time-distribution datagrams in a non-DC cycle", frmw)));
    }
    // ---- results ------------------------------------------------------------------------------
    if u32::from(obs.wkc) != wkc_sum {
        v.push(("wkc-sum".into(), format!("reported working counter {} but the process-data datagrams returned {}", obs.wkc, wkc_sum)));
    }
    let want_addrs: Vec<u16> = (0..ndev).map(|k| 0x1000 + (dev_base + k) as u16).collect();
    if state_checks != want_addrs {
        v.push(("state-checks".into(), format!("state was requested from {:x?}, group members are {:x?}", state_checks, want_addrs)));
    }
    if obs.states.len() != ndev {
        v.push(("state-list-length".into(), format!("{} states reported for {} SubDevices", obs.states.len(), ndev)));
    }
    for (k, s) in obs.states.iter().enumerate() {
        let dev = &seg.devices[dev_base + k];
        let want = dev.al_state();
        let got: u8 = u8::from(*s);
        if got != want {
            v.push(("state-list-content".into(), format!("entry {} reports {:?} but the device is in AL state {:#04x}", k, s, want)));
        }
    }
    // inputs: what the device holds in its input memory; outputs: what the application wrote
    for (k, (ni, no)) in layout.devs.iter().enumerate() {
        let dev = &seg.devices[dev_base + k];
        let want_in: Vec<u8> = (0..*ni).map(|i| in_pattern(k, i)).collect();
        if obs.inputs[k] != want_in {
            v.push(("inputs-wrong".into(), format!("device {} inputs read {:02x?}, its input memory holds {:02x?}", k, obs.inputs[k], want_in)));
        }
        let want_out: Vec<u8> = (0..*no).map(|i| out_pattern(k, i, round)).collect();
        if obs.outputs[k] != want_out {
            v.push(("outputs-clobbered".into(), format!("device {} outputs in the local image are {:02x?} after the cycle, the application wrote {:02x?}", k, obs.outputs[k], want_out)));
        }
        let got_dev: Vec<u8> = dev.mem[0x0f00..0x0f00 + *no].to_vec();
        if got_dev != want_out {
            v.push(("outputs-not-delivered".into(), format!("device {} output memory holds {:02x?}, the application wrote {:02x?}", k, got_dev, want_out)));
        }
    }
    // frame budget (does not re-implement the packing algorithm)
    let room = data - 16;
    let dcb = if has_dc { 20 } else { 0 };
    let per_frame = room.saturating_sub(12 + dcb).max(1);
    let per_frame_checks = (room / 14).max(1);
    let budget = (len + per_frame - 1) / per_frame + (ndev + per_frame_checks - 1) / per_frame_checks + 1;
    if obs.frames.len() > budget {
        v.push(("too-many-frames".into(), format!("{} frames for an image of {} bytes and {} devices with frame size {} (budget {})", obs.frames.len(), len, ndev, data, budget)));
    }
    v
}

#[derive(Debug, Clone)]
pub struct CaseResult {
    pub cycles: u64,
    pub viol: Vec<(String, String)>,
    pub outcome: String,
}

/// Bring the layout up once, then run cycles with every frame size of `sizes`.
pub fn run_layout(layout: &Layout, variant: Variant, sizes: &[usize]) -> CaseResult {
    let dc = matches!(variant, Variant::Dc | Variant::SyncRef);
    let mut res = CaseResult { cycles: 0, viol: Vec::new(), outcome: String::new() };
    // SyncRef / SyncNoRef need the MainDevice that ran init, so they use one Net per frame size.
    let per_size_net = matches!(variant, Variant::SyncRef | Variant::SyncNoRef);
    let net_sizes: Vec<usize> = if per_size_net { sizes.to_vec() } else { vec![1100] };
    for net_size in net_sizes {
        let seg = segment_for(layout, dc);
        let mut net = Net::with_size(seg, timeouts(), RetryBehaviour::None, net_size);
        let md = net.md();
        let second = layout.second_group;
        let l2 = layout.clone();
        let init = net.run(async move {
            let groups = md
                .init::<16, _>(|| 5_000_000, Groups::default(), move |g, sd| {
                    if second && sd.identity().product_id == 0x0999 {
                        Ok(&g.first)
                    } else {
                        Ok(&g.main)
                    }
                })
                .await?;
            let Groups { first, main } = groups;
            let _first = first.into_op(md).await?;
            let _ = &l2;
            Ok::<_, Error>(main)
        });
        let main = match init {
            Ok(Ok(g)) => g,
            other => {
                let s = match other {
                    Ok(Err(e)) => format!("{:?}", e),
                    Err(e) => format!("{:?}", e),
                    _ => unreachable!(),
                };
                res.viol.push((format!("bring-up-failed {}", s.chars().take(40).collect::<String>()), format!("init/into_op failed for {:?}: {}", layout, s)));
                res.outcome = "bring-up failed".into();
                return res;
            }
        };
        let dev_base = usize::from(layout.second_group);
        // the group's logical window starts where the lowest FMMU of its members starts (ground
        // truth from the devices; which group comes first in the address space is not specified)
        let pdi_start: u32 = {
            let seg = net.seg.borrow();
            (0..layout.devs.len())
                .flat_map(|k| seg.devices[dev_base + k].fmmus().into_iter().filter(|f| f.1 > 0).map(|f| f.0).collect::<Vec<_>>())
                .min()
                .unwrap_or(0)
        };
        let ref_addr = if dc { Some(0x1000u16) } else { None };
        // fill device input memories
        {
            let mut seg = net.seg.borrow_mut();
            for (k, (ni, _)) in layout.devs.iter().enumerate() {
                for i in 0..*ni {
                    seg.devices[dev_base + k].mem[0x1000 + i] = in_pattern(k, i);
                }
            }
        }
        macro_rules! cycles {
            ($group:expr, $call:ident, $extract:expr) => {{
                let group = $group;
                let mut round = 0usize;
                for &data in sizes {
                    if per_size_net && data != net_size {
                        continue;
                    }
                    round += 1;
                    // the application writes its outputs
                    for (k, (_, no)) in layout.devs.iter().enumerate() {
                        let sd = group.subdevice(md, k).expect("subdevice");
                        let mut o = sd.outputs_raw_mut();
                        if o.len() != *no {
                            let s = "output-window-length".to_string();
                            if !res.viol.iter().any(|x| x.0 == s) {
                                res.viol.push((s, format!("device {} has an output window of {} bytes, its PDOs need {} [layout {:?}]", k, o.len(), no, layout)));
                            }
                            continue;
                        }
                        for i in 0..*no {
                            o[i] = out_pattern(k, i, round);
                        }
                    }
                    {
                        let mut seg = net.seg.borrow_mut();
                        seg.keep_logs = true;
                        seg.frame_log.clear();
                    }
                    let gref = &group;
                    let obs: Result<Result<(u16, Vec<SubDeviceState>, Option<u64>), Error>, Stop> = if per_size_net {
                        net.run(async move {
                            let r = gref.$call(md).await?;
                            Ok((r.working_counter, r.subdevice_states.to_vec(), $extract(&r.extra)))
                        })
                    } else {
                        // second MainDevice with this frame size on the same segment
                        let mut out = None;
                        let segcell = &net.seg;
                        vx_sizes::with_storage(data, &mut |mut tx, mut rx, pl| {
                            let md2 = MainDevice::new(pl, timeouts(), MainDeviceConfig { dc_static_sync_iterations: 0, retry_behaviour: RetryBehaviour::None });
                            // SAFETY: md2 outlives the future; lifetimes are erased for the call only
                            let md2r: &'static MainDevice<'static> = unsafe { std::mem::transmute(&md2) };
                            let fut = async move {
                                let r = gref.$call(md2r).await?;
                                Ok((r.working_counter, r.subdevice_states.to_vec(), $extract(&r.extra)))
                            };
                            out = Some(crate::checks::c07::drive(fut, &mut tx, &mut rx, segcell));
                        });
                        out.unwrap()
                    };
                    res.cycles += 1;
                    let frames = {
                        let mut seg = net.seg.borrow_mut();
                        seg.keep_logs = false;
                        std::mem::take(&mut seg.frame_log)
                    };
                    match obs {
                        Ok(Ok((wkc, states, time))) => {
                            let mut inputs = Vec::new();
                            let mut outputs = Vec::new();
                            for k in 0..layout.devs.len() {
                                let sd = group.subdevice(md, k).expect("subdevice");
                                inputs.push(sd.inputs_raw().to_vec());
                                outputs.push(sd.outputs_raw().to_vec());
                            }
                            let o = CycleObs { frames, wkc, states, time, inputs, outputs };
                            let seg = net.seg.borrow();
                            let pdi_start: u32 = (0..layout.devs.len())
                                .flat_map(|k| seg.devices[dev_base + k].fmmus().into_iter().filter(|f| f.1 > 0).map(|f| f.0).collect::<Vec<_>>())
                                .min()
                                .unwrap_or(pdi_start);
                            for (s, m) in judge(layout, variant, data, pdi_start, &o, &seg, dev_base, round, ref_addr) {
                                if !res.viol.iter().any(|x| x.0 == s) {
                                    res.viol.push((s, format!("{} [layout {:?} variant {:?} frame size {}]", m, layout, variant, data)));
                                }
                            }
                        }
                        Ok(Err(e)) => {
                            let s = format!("cycle-error {}", format!("{:?}", e).chars().take(40).collect::<String>());
                            if !res.viol.iter().any(|x| x.0 == s) {
                                res.viol.push((s, format!("cycle failed with {:?} [layout {:?} variant {:?} frame size {}]", e, layout, variant, data)));
                            }
                        }
                        Err(stop) => {
                            let s = format!("cycle-did-not-terminate {}", format!("{:?}", stop).chars().take(24).collect::<String>());
                            if !res.viol.iter().any(|x| x.0 == s) {
                                res.viol.push((s, format!("cycle did not finish: {:?} [layout {:?} variant {:?} frame size {}]", stop, layout, variant, data)));
                            }
                            if matches!(stop, Stop::Panic(_)) {
                                // the poisoned future still holds the image lock: stop here
                                res.outcome = "panic".into();
                                return res;
                            }
                        }
                    }
                }
            }};
        }
        match variant {
            Variant::Plain => {
                let g = match net.run(async move { main.into_op(md).await }) {
                    Ok(Ok(g)) => g,
                    o => {
                        res.viol.push(("bring-up-failed into_op".into(), format!("{:?}", o.map(|r| r.map(|_| ())))));
                        return res;
                    }
                };
                cycles!(g, tx_rx, |_e: &()| None::<u64>);
            }
            Variant::SyncRef | Variant::SyncNoRef => {
                let g = match net.run(async move { main.into_op(md).await }) {
                    Ok(Ok(g)) => g,
                    o => {
                        res.viol.push(("bring-up-failed into_op".into(), format!("{:?}", o.map(|r| r.map(|_| ())))));
                        return res;
                    }
                };
                cycles!(g, tx_rx_sync_system_time, |e: &Option<u64>| *e);
                if variant == Variant::SyncNoRef {
                    // without a reference the reported time must be absent: checked through `time`
                }
            }
            Variant::Dc => {
                let mut main = main;
                let g = net.run(async move {
                    for mut sd in main.iter_mut(md) {
                        if sd.dc_support().any() {
                            sd.set_dc_sync(DcSync::Sync0);
                        }
                    }
                    // documented order (examples/dc.rs): configure the PDI first, then DC sync
                    let main = main.into_pre_op_pdi(md).await?;
                    let g = main
                        .configure_dc_sync(md, DcConfiguration { start_delay: Duration::from_millis(1), sync0_period: Duration::from_micros(500), sync0_shift: Duration::from_micros(100) })
                        .await?;
                    g.into_op(md).await
                });
                let g = match g {
                    Ok(Ok(g)) => g,
                    o => {
                        res.viol.push(("bring-up-failed dc".into(), format!("{:?}", o.map(|r| r.map(|_| ())))));
                        return res;
                    }
                };
                cycles!(g, tx_rx_dc, |e: &ethercrab::subdevice_group::CycleInfo| Some(e.dc_system_time));
            }
        }
    }
    res.outcome = if res.viol.is_empty() { "ok".into() } else { "violations".into() };
    res
}

/// Minimal executor for a future running on a second MainDevice against the shared segment.
pub fn drive<T>(
    fut: impl std::future::Future<Output = Result<T, Error>>,
    tx: &mut ethercrab::PduTx<'_>,
    rx: &mut ethercrab::PduRx<'_>,
    seg: &std::cell::RefCell<Segment>,
) -> Result<Result<T, Error>, Stop> {
    use std::sync::atomic::{AtomicBool, Ordering};
    use std::sync::Arc;
    use std::task::{Context, Poll, Wake, Waker};
    struct F(AtomicBool);
    impl Wake for F {
        fn wake(self: Arc<Self>) {
            self.0.store(true, Ordering::SeqCst)
        }
    }
    let flag = Arc::new(F(AtomicBool::new(true)));
    let waker = Waker::from(flag.clone());
    let mut cx = Context::from_waker(&waker);
    let mut fut = Box::pin(fut);
    let mut frames = 0u64;
    let mut polls = 0u64;
    loop {
        if frames > 20_000 || polls > 100_000 {
            return Err(Stop::Budget(format!("polls {} frames {}", polls, frames)));
        }
        if flag.0.swap(false, Ordering::SeqCst) {
            polls += 1;
            match std::panic::catch_unwind(std::panic::AssertUnwindSafe(|| fut.as_mut().poll(&mut cx))) {
                Ok(Poll::Ready(v)) => return Ok(v),
                Ok(Poll::Pending) => {}
                Err(p) => {
                    std::mem::forget(fut);
                    return Err(Stop::Panic(crate::e1::panic_msg(&p)));
                }
            }
        }
        let mut moved = 0;
        let mut answers = Vec::new();
        while let Some(f) = tx.next_sendable_frame() {
            let _ = f.send_blocking(|b| {
                if let Some(a) = seg.borrow_mut().process(b) {
                    answers.push(a);
                }
                Ok(b.len())
            });
        }
        for a in answers {
            crate::clock::advance_by(10);
            seg.borrow_mut().time_ns += 10_000;
            let _ = rx.receive_frame(&a);
            moved += 1;
            frames += 1;
        }
        if moved > 0 || flag.0.load(Ordering::SeqCst) {
            continue;
        }
        if crate::clock::fire_next().is_none() {
            return Err(Stop::Deadlock);
        }
    }
}

fn layouts(max_len: usize, max_dev: usize, second: bool) -> Vec<Layout> {
    let mut v = Vec::new();
    // every (inputs, outputs) split of every image length, spread over 1..=max_dev devices
    for total in 0..=max_len {
        for ins in 0..=total {
            let outs = total - ins;
            for d in 1..=max_dev {
                // device k gets an equal share, the first device the remainder
                let mut devs = vec![(ins / d, outs / d); d];
                devs[0].0 += ins % d;
                devs[0].1 += outs % d;
                // skip duplicates of smaller device counts where shares are zero everywhere but dev 0
                if d > 1 && ins / d == 0 && outs / d == 0 && total > 0 {
                    if d > 2 {
                        continue;
                    }
                }
                v.push(Layout { devs, second_group: second });
            }
        }
    }
    // an empty group
    v.push(Layout { devs: vec![], second_group: second });
    v
}

pub fn c07(tier: &Tier) -> Result<i32, String> {
    let mut rep = Report::new("C07", "exploration", tier);
    rep.rule = "every image length 0..=L with every input/output split spread over 1..=D SubDevices (plus the empty group), brought up by the real init/into_op against the segment simulator; then one process-data cycle for every frame size of the stated set and each cycle variant (plain, system-time sync with and without reference clock, DC), with position/device-tagged input memories and output images; the wire-level datagram log of the simulator and the device memories are the oracle; non-trivial = cycle whose image needs at least two frames or whose group has at least two SubDevices".into();
    rep.assumptions = vec![
        "the plain and DC variants run the cycle on a second MainDevice whose frame size is the one under test (the group object only carries addresses), because init itself needs >= 44-byte frames; the system-time-sync variants need the MainDevice that ran init and are therefore limited to the Net frame sizes 44,50,52,60,64,80,100,128,256,1100,1514".into(),
        "image contents are position/device tagged (the cycle copies bytes and never branches on them); frame budget is the non-reimplementing bound of DESIGN.md appendix E".into(),
        "byte-aligned process data of 8-bit entries; devices are simple I/O terminals configured from EEPROM (CoE configuration is C08)".into(),
    ];
    let (max_len, max_dev) = if tier.thorough { (64, 8) } else { (24, 4) };
    let sizes_plain: Vec<usize> = if tier.thorough { (30..=160).chain([512, 1100, 1514]).collect() } else { (30..=100).chain([128, 512, 1514]).collect() };
    let sizes_dc: Vec<usize> = sizes_plain.iter().copied().filter(|s| *s >= 50).collect();
    let sizes_sync: Vec<usize> = if tier.thorough { vec![50, 52, 60, 64, 80, 100, 128, 256, 1100, 1514] } else { vec![50, 52, 64, 128, 1514] };
    let mut jobs: Vec<(Layout, Variant, Vec<usize>)> = Vec::new();
    for l in layouts(max_len, max_dev, false) {
        jobs.push((l.clone(), Variant::Plain, sizes_plain.clone()));
        if !l.devs.is_empty() {
            jobs.push((l.clone(), Variant::Dc, sizes_dc.clone()));
        }
    }
    let (sl, sd) = if tier.thorough { (16, 3) } else { (6, 2) };
    for l in layouts(sl, sd, false) {
        if !l.devs.is_empty() {
            jobs.push((l.clone(), Variant::SyncRef, sizes_sync.clone()));
        }
        jobs.push((l.clone(), Variant::SyncNoRef, vec![44, 64]));
    }
    for l in layouts(if tier.thorough { 16 } else { 6 }, 2, true) {
        jobs.push((l.clone(), Variant::Plain, sizes_plain.clone()));
    }
    let workers = crate::core::workers();
    let next = std::sync::atomic::AtomicUsize::new(0);
    type Out = (u64, u64, BTreeMap<String, u64>, Vec<(String, String)>);
    let outs: Vec<Out> = std::thread::scope(|s| {
        let hs: Vec<_> = (0..workers)
            .map(|_| {
                let jobs = &jobs;
                let next = &next;
                s.spawn(move || {
                    let mut cycles = 0u64;
                    let mut nt = 0u64;
                    let mut outcomes: BTreeMap<String, u64> = BTreeMap::new();
                    let mut viol: Vec<(String, String)> = Vec::new();
                    loop {
                        let i = next.fetch_add(1, std::sync::atomic::Ordering::SeqCst);
                        if i >= jobs.len() {
                            break;
                        }
                        let (l, var, sizes) = &jobs[i];
                        if std::env::var("VX_VERBOSE").is_ok() {
                            eprintln!("job {} {:?} {:?}", i, l, var);
                        }
                        let (l2, v2, s2) = (l.clone(), *var, sizes.clone());
                        let r = match crate::core::run_with_deadline(Duration::from_secs(30), move || run_layout(&l2, v2, &s2)) {
                            Some(r) => r,
                            None => CaseResult {
                                cycles: 1,
                                viol: vec![(
                                    format!("cycle-hangs variant={:?}", var),
                                    format!("the cycle spins forever without awaiting anything (no frame sent, no timer armed; 30 s wall clock) [layout {:?} variant {:?}]", l, var),
                                )],
                                outcome: "hang".into(),
                            },
                        };
                        cycles += r.cycles;
                        let total: usize = l.devs.iter().map(|d| d.0 + d.1).sum();
                        if l.devs.len() >= 2 || total > 14 {
                            nt += r.cycles;
                        }
                        *outcomes.entry(format!("{:?}: {}", var, r.outcome)).or_insert(0) += 1;
                        for (s, m) in r.viol {
                            if !viol.iter().any(|x| x.0 == s) {
                                viol.push((s, m));
                            }
                        }
                    }
                    (cycles, nt, outcomes, viol)
                })
            })
            .collect();
        hs.into_iter().map(|h| h.join().expect("c07 worker")).collect()
    });
    for (cycles, nt, outcomes, viol) in outs {
        rep.evaluations += cycles;
        rep.nontrivial += nt;
        for (k, v) in outcomes {
            *rep.outcomes.entry(k).or_insert(0) += v;
        }
        for (s, m) in viol {
            rep.violation(&s, &m, json!({"engine": "c07", "detail": m}));
        }
    }
    rep.states = rep.evaluations;
    rep.transitions = rep.evaluations;
    rep.extra.insert("layouts".into(), json!(jobs.len()));
    rep.extra.insert("frame_sizes".into(), json!({"plain": sizes_plain.len(), "dc": sizes_dc.len(), "sync": sizes_sync}));
    rep.samples.push(json!(format!("{:?}", jobs[jobs.len() / 3].0)));
    rep.samples.push(json!({"layout": format!("{:?}", jobs[jobs.len() / 2].0), "variant": format!("{:?}", jobs[jobs.len() / 2].1)}));
    Ok(rep.finish())
}
