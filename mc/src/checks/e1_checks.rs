//! C01, C02, C06: schedules of the real PDU loop under the controlled scheduler.

use crate::core::{explore_iterative, Bound, Harness, Limits};
use crate::e1::{describe, E1Cfg, E1Harness, Prop, Req, Retry};
use crate::report::{Report, Tier};
use serde_json::json;
use std::time::Duration;

const ASSUME: &[&str] = &[
    "sequentially consistent interleavings only: tasks are serialised on one OS thread, so reorderings permitted by Relaxed/Release/Acquire are not explored",
    "one scheduling point before every shared-state access of the PDU loop (verif hook); accesses between two points of one task form one atomic step",
    "ethercrab built without its std feature; all timers are embassy-time timers served by a virtual clock the harness owns",
    "AtomicWaker register/take/wake are atomic steps",
    "storage of 1, 2 or 4 slots with 64-byte frames; payloads of 2..8 bytes (contents are position/identity tagged, the code never branches on them)",
];

pub fn configs(prop: Prop, thorough: bool) -> Vec<(E1Cfg, Vec<Bound>)> {
    let r4 = Req::Read { len: 4 };
    let w3 = Req::Write { len: 3 };
    let m2 = Req::Multi { pdus: 2, len: 2 };
    let mut v = Vec::new();
    match prop {
        Prop::C01 => {
            // quick bounds are sized so that every level completes (deterministic coverage);
            // thorough adds the next level to each harness
            let _b11 = vec![Bound::new(0, 0), Bound::new(1, 1)];
            let b21 = vec![Bound::new(0, 0), Bound::new(1, 1), Bound::new(2, 1)];
            let b22 = vec![Bound::new(0, 0), Bound::new(1, 1), Bound::new(2, 2)];
            let b_small = if thorough { vec![Bound::new(0, 0), Bound::new(1, 1), Bound::new(2, 2), Bound::new(3, 3)] } else { b22.clone() };
            let mut c = E1Cfg::base(prop, "c01-2app-1req-N1", 1, vec![vec![r4.clone()], vec![r4.clone()]]);
            c.reorder = true;
            v.push((c, if thorough { b22.clone() } else { b21.clone() }));
            // two preemptions or one preemption + one reordering, but not three deviations
            let b21t2 = vec![Bound::new(0, 0), Bound::new(1, 1), Bound { preempt: 2, env: 1, total: 2 }];
            let mut c = E1Cfg::base(prop, "c01-2app-1req-N2", 2, vec![vec![r4.clone()], vec![w3.clone()]]);
            c.reorder = true;
            v.push((c, if thorough { b21.clone() } else { b21t2.clone() }));
            let mut c = E1Cfg::base(prop, "c01-1app-2req-N1", 1, vec![vec![r4.clone(), w3.clone()]]);
            c.reorder = true;
            v.push((c, b_small.clone()));
            let mut c = E1Cfg::base(prop, "c01-multi+single-N2", 2, vec![vec![m2.clone()], vec![r4.clone()]]);
            c.reorder = true;
            v.push((c, if thorough { b21.clone() } else { b21t2.clone() }));
            // view family: every length 0..=8 x every front-trim amount 0..=len+1 (sequential)
            for len in 0..=8u16 {
                let reqs: Vec<Req> = (0..=(len as usize + 1)).map(|ct| Req::ReadTrim { len, ct }).collect();
                for (k, chunk) in reqs.chunks(3).enumerate() {
                    let c = E1Cfg::base(prop, &format!("c01-trim-len{}-{}", len, k), 1, vec![chunk.to_vec()]);
                    v.push((c, vec![Bound::new(0, 0)]));
                }
            }
            if thorough {
                let b3 = vec![Bound::new(0, 0), Bound::new(1, 1), Bound::new(2, 1), Bound::new(3, 1)];
                let b2 = vec![Bound::new(0, 0), Bound::new(1, 1), Bound::new(2, 2)];
                let mut c = E1Cfg::base(prop, "c01-2app-1req-N1-b3", 1, vec![vec![r4.clone()], vec![r4.clone()]]);
                c.reorder = true;
                v.push((c, b3.clone()));
                let mut c = E1Cfg::base(prop, "c01-2app-2req-N2", 2, vec![vec![r4.clone(), w3.clone()], vec![w3.clone(), r4.clone()]]);
                c.reorder = true;
                v.push((c, b2.clone()));
                // three application tasks: a finer ladder, so that some level completes in the budget
                let ladder = vec![Bound::new(0, 0), Bound::new(1, 0), Bound::new(1, 1), Bound::new(2, 1), Bound::new(2, 2)];
                let mut c = E1Cfg::base(prop, "c01-3app-1req-N2", 2, vec![vec![r4.clone()], vec![w3.clone()], vec![m2.clone()]]);
                c.reorder = true;
                v.push((c, ladder.clone()));
                let mut c = E1Cfg::base(prop, "c01-3app-1req-N4", 4, vec![vec![r4.clone()], vec![w3.clone()], vec![r4.clone()]]);
                c.reorder = true;
                v.push((c, ladder));
            }
        }
        Prop::C02 => {
            let b_quick = vec![Bound::new(0, 0), Bound::new(1, 1), Bound::new(2, 1)];
            let _b11 = vec![Bound::new(0, 0), Bound::new(1, 1)];
            // two preemptions or one preemption + one fault, but not three deviations
            let b21t2 = vec![Bound::new(0, 0), Bound::new(1, 1), Bound { preempt: 2, env: 1, total: 2 }];
            let mut c = E1Cfg::base(prop, "c02-2app-N1-faults", 1, vec![vec![r4.clone()], vec![w3.clone()]]);
            c.send_faults = true;
            c.reorder = true;
            c.duplicates = true;
            v.push((c, if thorough { b_quick.clone() } else { b21t2.clone() }));
            let mut c = E1Cfg::base(prop, "c02-2app-N2-faults", 2, vec![vec![r4.clone()], vec![m2.clone()]]);
            c.send_faults = true;
            c.reorder = true;
            c.duplicates = true;
            v.push((c, if thorough { b_quick.clone() } else { b21t2.clone() }));
            let mut c = E1Cfg::base(prop, "c02-1app-2req-N1-faults", 1, vec![vec![w3.clone(), r4.clone()]]);
            c.send_faults = true;
            c.duplicates = true;
            v.push((c, if thorough { vec![Bound::new(0, 0), Bound::new(1, 1), Bound::new(2, 2), Bound::new(3, 2)] } else { b_quick.clone() }));
            if thorough {
                let b3 = vec![Bound::new(0, 0), Bound::new(1, 1), Bound::new(2, 2), Bound::new(3, 2)];
                let mut c = E1Cfg::base(prop, "c02-2app-N1-faults-b3", 1, vec![vec![r4.clone()], vec![w3.clone()]]);
                c.send_faults = true;
                c.reorder = true;
                c.duplicates = true;
                v.push((c, b3));
                let mut c = E1Cfg::base(prop, "c02-3app-N2-faults", 2, vec![vec![r4.clone()], vec![w3.clone()], vec![m2.clone()]]);
                c.send_faults = true;
                c.reorder = true;
                c.duplicates = true;
                v.push((c, vec![Bound::new(0, 0), Bound::new(1, 0), Bound::new(0, 1), Bound::new(1, 1), Bound::new(2, 1)]));
                let mut c = E1Cfg::base(prop, "c02-2app-2req-N2-faults", 2, vec![vec![r4.clone(), w3.clone()], vec![m2.clone(), r4.clone()]]);
                c.send_faults = true;
                c.reorder = true;
                c.duplicates = true;
                v.push((c, b_quick.clone()));
            }
        }
        Prop::C06 => {
            let b22 = vec![Bound::new(0, 0), Bound::new(1, 1), Bound::new(2, 2)];
            let b21 = vec![Bound::new(0, 0), Bound::new(1, 1), Bound::new(2, 1)];
            let b11 = vec![Bound::new(0, 0), Bound::new(1, 1)];
            let t1 = vec![Bound::total(0), Bound::total(1)];
            let t2 = vec![Bound::total(0), Bound::total(1), Bound::total(2)];
            // (1) never answered / answered late, every retry policy: exact transmission count,
            // timeout error, byte-identical retransmissions, response wins over deadline
            for (name, retry, lose, bq, bt) in [
                ("c06-noanswer-none", Retry::None, 99usize, &b22, &b22),
                ("c06-noanswer-count1", Retry::Count(1), 99, &b22, &b22),
                ("c06-noanswer-count2", Retry::Count(2), 99, &b21, &b22),
                ("c06-noanswer-count3", Retry::Count(3), 99, &b11, &b22),
                ("c06-answer-after-2-forever", Retry::Forever, 2, &b11, &b22),
                ("c06-answer-after-1-count2", Retry::Count(2), 1, &b21, &b22),
            ] {
                let mut c = E1Cfg::base(prop, name, 1, vec![vec![r4.clone()]]);
                c.clock = true;
                c.retry = retry;
                c.lose_first = lose;
                if retry == Retry::Forever {
                    c.clock_waits_for_tx = true;
                }
                v.push((c, if thorough { bt.clone() } else { bq.clone() }));
            }
            // (1b) the frame is never sent at all (stalled TX task) / the response is rejected after
            // the receive side claimed the slot: the request must still end with a timeout after
            // its deadlines, and the slot must come back
            for (name, retry, b) in [
                ("c06-txdead-none", Retry::None, &b22),
                ("c06-txdead-count2", Retry::Count(2), &b22),
            ] {
                let mut c = E1Cfg::base(prop, name, 1, vec![vec![r4.clone()]]);
                c.clock = true;
                c.retry = retry;
                c.tx_dead = true;
                v.push((c, b.clone()));
            }
            for (name, retry, b) in [
                ("c06-oversize-response-none", Retry::None, &b21),
                ("c06-oversize-response-count1", Retry::Count(1), &b21),
            ] {
                let mut c = E1Cfg::base(prop, name, 1, vec![vec![r4.clone()]]);
                c.clock = true;
                c.retry = retry;
                c.oversize = true;
                v.push((c, b.clone()));
            }
            // (2) loss as a choice + competitor for the same slot + abandonment
            let mut c = E1Cfg::base(prop, "c06-2app-N1-loss-clock", 1, vec![vec![r4.clone()], vec![w3.clone()]]);
            c.clock = true;
            c.loss = true;
            c.retry = Retry::Count(1);
            v.push((c, if thorough { t2.clone() } else { t1.clone() }));
            let mut c = E1Cfg::base(prop, "c06-2app-N1-abandon", 1, vec![vec![r4.clone()], vec![w3.clone()]]);
            c.abandon = true;
            c.clock = true;
            c.retry = Retry::None;
            v.push((c, if thorough { t2.clone() } else { t1.clone() }));
            // request A (tag 1) is never answered and expires while request B competes for the
            // same slot: every interleaving of A's expiry/release/drop with B's allocation
            for (name, retry) in [("c06-2app-N1-A-expires-none", Retry::None), ("c06-2app-N1-A-expires-count1", Retry::Count(1))] {
                let mut c = E1Cfg::base(prop, name, 1, vec![vec![r4.clone()], vec![w3.clone()]]);
                c.clock = true;
                c.lose_tags = vec![1];
                c.retry = retry;
                // without retries the space is small enough for two deviations in the quick tier
                v.push((c, if thorough || retry == Retry::None { t2.clone() } else { t1.clone() }));
            }
            let mut c = E1Cfg::base(prop, "c06-2app-N2-loss-abandon", 2, vec![vec![r4.clone()], vec![w3.clone()]]);
            c.abandon = true;
            c.clock = true;
            c.loss = true;
            c.retry = Retry::Count(1);
            v.push((c, if thorough { t2.clone() } else { t1.clone() }));
            if thorough {
                let mut c = E1Cfg::base(prop, "c06-2app-2req-N1-loss", 1, vec![vec![r4.clone(), w3.clone()], vec![w3.clone()]]);
                c.clock = true;
                c.loss = true;
                c.abandon = true;
                c.retry = Retry::Count(2);
                v.push((c, t2.clone()));
                let mut c = E1Cfg::base(prop, "c06-multi+single-N1-abandon", 1, vec![vec![m2.clone()], vec![r4.clone()]]);
                c.clock = true;
                c.abandon = true;
                c.retry = Retry::Count(1);
                v.push((c, t2.clone()));
            }
        }
    }
    v
}

fn run_prop(prop: Prop, id: &str, tier: &Tier, rule: &str) -> Result<i32, String> {
    let mut rep = Report::new(id, "model_checking", tier);
    rep.rule = rule.to_string();
    rep.assumptions = ASSUME.iter().map(|s| s.to_string()).collect();
    let budget = if tier.thorough { 1500.0 } else { 50.0 };
    let cfgs = configs(prop, tier.thorough);
    let mut described = Vec::new();
    // thorough: the sequential view/trim programs take no time; every other harness gets an equal
    // share of what is left of the budget (unused time carries over to the later ones)
    let heavy = cfgs.iter().filter(|(_, b)| b.len() > 1).count().max(1);
    let mut heavy_done = 0usize;
    for (cfg, bounds) in cfgs {
        // experimentation aid: VX_ONLY=<label> VX_BOUNDS="p,e,t;p,e,t" runs one harness with other bounds
        let mut bounds = bounds;
        if let Ok(only) = std::env::var("VX_ONLY") {
            if only != cfg.label {
                continue;
            }
            if let Ok(bs) = std::env::var("VX_BOUNDS") {
                bounds = bs
                    .split(';')
                    .map(|t| {
                        let n: Vec<u32> = t.split(',').map(|x| x.trim().parse().unwrap()).collect();
                        Bound { preempt: n[0], env: n[1], total: n[2] }
                    })
                    .collect();
            }
        }
        let h = E1Harness { cfg: cfg.clone() };
        described.push(json!(describe(&cfg)));
        let remaining = (budget - rep.t0.elapsed().as_secs_f64()).max(2.0);
        let lim = Limits {
            max_executions: u64::MAX,
            // quick: every listed bound is sized to complete (deterministic coverage); the wall cap is
            // only a safety net. thorough: the remaining budget is the cap and is reported when hit.
            max_wall: Duration::from_secs_f64(if tier.thorough { (remaining / (heavy - heavy_done).max(1) as f64).max(5.0) } else { 150.0 }),
            workers: crate::core::workers(),
        };
        if bounds.len() > 1 {
            heavy_done += 1;
        }
        let known = crate::report::Known::load();
        let is_known = |s: &str| known.find(id, s).is_some();
        let st = explore_iterative(&h, &bounds, &lim, tier.seed, &is_known)?;
        if rep.samples.len() < 2 {
            rep.sample_default_run(&h);
        }
        println!(
            "  {:<32} bound {:?}: {} executions, {} states, {} outcomes, {:.1}s{}",
            h.name(),
            st.bound_completed.map(|b| (b.preempt, b.env)),
            st.executions,
            st.states,
            st.outcomes.len(),
            st.wall_s,
            st.cap_hit.as_ref().map(|c| format!(" CAP: {}", c)).unwrap_or_default()
        );
        rep.absorb(&h, &st)?;
        if !rep.unknown.is_empty() {
            break;
        }
    }
    rep.extra.insert("harnesses".into(), json!(described));
    Ok(rep.finish())
}

pub fn c01(tier: &Tier) -> Result<i32, String> {
    run_prop(
        Prop::C01,
        "C01",
        tier,
        "stateless DFS over choice vectors (scheduling choice before every shared-state access, response delivery order) with iterative preemption/deviation bounding; every execution runs the real PDU loop; non-trivial = execution with at least two requests or a slot that was allocated more than once",
    )
}

pub fn c02(tier: &Tier) -> Result<i32, String> {
    run_prop(
        Prop::C02,
        "C02",
        tier,
        "as C01 plus send outcomes ok/partial/error and duplicate (late) responses as environment deviations; ownership-token and lifecycle-edge monitors evaluated at every step; non-trivial = at least two requests or a re-allocated slot",
    )
}

pub fn c06(tier: &Tier) -> Result<i32, String> {
    run_prop(
        Prop::C06,
        "C06",
        tier,
        "as C01 plus a Clock pseudo-task that may advance virtual time to the next armed deadline at every scheduling point, response loss and abandonment of the awaiting future as environment deviations, retry policies None/Count(1..3)/Forever; non-trivial = at least two requests or a re-allocated slot or a fired deadline",
    )
}

/// Rebuild a harness from its label (for `vx replay`).
/// C03's E1 part: the slot states that exist only while the transmit or receive side is inside one
/// call (`Sending`, `RxBusy`) are invisible to E2's atomic operations; these harnesses let a request
/// expire or be dropped at every scheduling point and keep only the capacity clause ("every slot is
/// allocatable again once all handles are gone"). Release while the transmit side is inside the
/// buffer is C06's window, as C03's quantifier says.
pub struct CapacityOnly(pub E1Harness);

impl Harness for CapacityOnly {
    fn name(&self) -> String {
        self.0.name()
    }
    fn run(&self, ctx: &mut crate::core::Ctx) -> crate::core::RunResult {
        let mut r = self.0.run(ctx);
        r.violations.retain(|v| v.signature.contains("slot-lost") && !v.signature.starts_with("window=released-while-Tx"));
        r
    }
    fn params(&self) -> serde_json::Value {
        json!({"engine": "e1", "label": self.0.cfg.label, "prop": "C03 (capacity clause of the C06 harness)"})
    }
}

pub fn c03_harnesses(thorough: bool) -> Vec<(CapacityOnly, Vec<Bound>)> {
    let r4 = Req::Read { len: 4 };
    let w3 = Req::Write { len: 3 };
    let b22 = vec![Bound::new(0, 0), Bound::new(1, 1), Bound::new(2, 2)];
    let b21 = vec![Bound::new(0, 0), Bound::new(1, 1), Bound::new(2, 1)];
    let t1 = vec![Bound::total(0), Bound::total(1)];
    let t2 = vec![Bound::total(0), Bound::total(1), Bound::total(2)];
    let mut v = Vec::new();
    let mut c = E1Cfg::base(Prop::C06, "c03-e1-1app-N1-abandon", 1, vec![vec![r4.clone()]]);
    c.clock = true;
    c.abandon = true;
    v.push((CapacityOnly(E1Harness { cfg: c }), b22.clone()));
    let mut c = E1Cfg::base(Prop::C06, "c03-e1-1app-N1-expire-count1", 1, vec![vec![r4.clone()]]);
    c.clock = true;
    c.retry = Retry::Count(1);
    v.push((CapacityOnly(E1Harness { cfg: c }), if thorough { b22.clone() } else { b21.clone() }));
    let mut c = E1Cfg::base(Prop::C06, "c03-e1-1app-N1-expire-none-dup", 1, vec![vec![r4.clone()]]);
    c.clock = true;
    c.duplicates = true;
    v.push((CapacityOnly(E1Harness { cfg: c }), b21.clone()));
    let mut c = E1Cfg::base(Prop::C06, "c03-e1-2app-N1-abandon", 1, vec![vec![r4.clone()], vec![w3.clone()]]);
    c.clock = true;
    c.abandon = true;
    v.push((CapacityOnly(E1Harness { cfg: c }), if thorough { t2.clone() } else { t1.clone() }));
    let mut c = E1Cfg::base(Prop::C06, "c03-e1-2app-N2-abandon", 2, vec![vec![r4.clone()], vec![w3.clone()]]);
    c.clock = true;
    c.abandon = true;
    v.push((CapacityOnly(E1Harness { cfg: c }), if thorough { t2 } else { t1 }));
    v
}

pub fn harness_by_label(label: &str) -> Option<Box<dyn Harness>> {
    if label.starts_with("c03-e1-") {
        return c03_harnesses(true).into_iter().find(|(h, _)| h.name() == label).map(|(h, _)| Box::new(h) as Box<dyn Harness>);
    }
    for prop in [Prop::C01, Prop::C02, Prop::C06] {
        for (cfg, _) in configs(prop, true) {
            if cfg.label == label {
                return Some(Box::new(E1Harness { cfg }));
            }
        }
    }
    None
}
