//! C11: a device that did not answer is never mistaken for one that did.

use crate::checks::c09::{build_segment, Case, DevCfg};
use crate::net::{Net, Stop};
use crate::report::{Report, Tier};
use ethercrab::error::Error;
use ethercrab::{Command, SubDeviceGroup};
use serde_json::json;
use std::collections::BTreeMap;

#[derive(Clone, Copy, Debug, PartialEq, Eq)]
pub enum Op {
    RegisterRead,
    RegisterWrite,
    Status,
    EepromReadRaw,
    EepromReadTyped,
    SdoRead,
    SdoReadNormal,
    SdoWrite,
    IntoSafeOp,
    IntoOp,
}

const OPS: [Op; 10] = [
    Op::RegisterRead,
    Op::RegisterWrite,
    Op::Status,
    Op::EepromReadRaw,
    Op::EepromReadTyped,
    Op::SdoRead,
    Op::SdoReadNormal,
    Op::SdoWrite,
    Op::IntoSafeOp,
    Op::IntoOp,
];

fn net2() -> Net {
    let base = DevCfg { stale_addr: 0, read8: true, named: true, mailbox: true, dc: 0, busy: 0 };
    let case = Case { devs: vec![base.clone(), base], assign: vec![0, 0], max: 4 };
    let (mut seg, _) = build_segment(&case);
    for d in seg.devices.iter_mut() {
        if let Some(c) = d.coe.as_mut() {
            c.od.insert((0x2000, 1), vec![0x11, 0x22, 0x33, 0x44]);
            c.od.insert((0x2001, 0), (0..40u8).collect());
            c.od.insert((0x1c12, 0), vec![0]);
            c.od.insert((0x1c13, 0), vec![0]);
        }
    }
    Net::new(seg)
}

enum Fault {
    None,
    /// device 1 stops answering after `j` more datagrams addressed to it
    Vanish(u64),
    /// working counter of the `k`-th datagram of the operation (1-based) rewritten to `v`
    Rewrite(u64, u16),
}

/// Run `op` on device 1 of a two-device network. Returns (debug of result, is_ok, datagrams used,
/// datagrams serviced by device 1).
fn run_op(op: Op, fault: Fault) -> (Result<String, String>, u64, u64, Option<Stop>) {
    let mut net = net2();
    let md = net.md();
    let group = match net.run(async move { md.init_single_group::<4, 64>(|| 0).await }) {
        Ok(Ok(g)) => g,
        o => return (Err(format!("setup: {:?}", o.map(|r| r.map(|_| ())))), 0, 0, None),
    };
    let d0 = net.seg.borrow().datagrams;
    let s0 = net.seg.borrow().serviced[1];
    match fault {
        Fault::None => {}
        Fault::Vanish(j) => net.seg.borrow_mut().vanish_after = Some((1, s0 + j)),
        Fault::Rewrite(k, v) => net.seg.borrow_mut().wkc_rewrite = Some((d0 + k, v)),
    }
    let r: Result<Result<String, Error>, Stop> = match op {
        Op::IntoSafeOp => net.run(async move { group.into_safe_op(md).await.map(|g| format!("group of {}", g.len())) }),
        Op::IntoOp => net.run(async move { group.into_op(md).await.map(|g| format!("group of {}", g.len())) }),
        _ => {
            let g: &SubDeviceGroup<4, 64> = &group;
            net.run(async move {
                let sd = g.subdevice(md, 1)?;
                match op {
                    Op::RegisterRead => sd.register_read::<u16>(0x0010u16).await.map(|v| format!("{:#06x}", v)),
                    Op::RegisterWrite => sd.register_write::<u16>(0x0f80u16, 0xbeef).await.map(|v| format!("{:#06x}", v)),
                    Op::Status => sd.status().await.map(|v| format!("{:?}", v)),
                    Op::EepromReadRaw => {
                        let mut buf = [0u8; 12];
                        sd.eeprom_read_raw(md, 8, &mut buf).await.map(|n| format!("{} {:02x?}", n, buf))
                    }
                    Op::EepromReadTyped => sd.eeprom_read::<u32>(md, 8).await.map(|v| format!("{:#x}", v)),
                    Op::SdoRead => sd.sdo_read::<u32>(0x2000, 1).await.map(|v| format!("{:#x}", v)),
                    Op::SdoReadNormal => sd.sdo_read::<[u8; 40]>(0x2001, 0).await.map(|v| format!("{:02x?}", &v[..4])),
                    Op::SdoWrite => sd.sdo_write(0x2000, 1, 0x55667788u32).await.map(|_| "written".to_string()),
                    _ => unreachable!(),
                }
            })
        }
    };
    let d1 = net.seg.borrow().datagrams;
    let s1 = net.seg.borrow().serviced[1];
    // for the transitions the value includes what was programmed into the devices (sync managers
    // and FMMUs), so that "succeeded, but configured something else" is visible
    let r = match (op, r) {
        (Op::IntoSafeOp | Op::IntoOp, Ok(Ok(s))) => {
            let seg = net.seg.borrow();
            let mut cfg: Vec<u8> = Vec::new();
            for d in seg.devices.iter() {
                cfg.extend_from_slice(&d.mem[0x0600..0x0700]);
                cfg.extend_from_slice(&d.mem[0x0800..0x0880]);
            }
            Ok(Ok(format!("{} cfg={:016x}", s, crate::core::fnv(&cfg))))
        }
        (_, r) => r,
    };
    match r {
        Ok(Ok(s)) => (Ok(s), d1 - d0, s1 - s0, None),
        Ok(Err(e)) => (Err(format!("{:?}", e)), d1 - d0, s1 - s0, None),
        Err(stop) => (Err(format!("{:?}", stop)), d1 - d0, s1 - s0, Some(stop)),
    }
}

fn builders(viol: &mut Vec<(String, String)>, outcomes: &mut BTreeMap<String, u64>) -> u64 {
    // (A) the four data-returning builder methods x expected count 0..=3 x received count 0..=3
    let mut n = 0u64;
    for method in 0..4 {
        for expected in 0..=3u16 {
            for received in 0..=3u16 {
                for present in [true, false] {
                    // the true count is 1 (present) or 0 (absent address); the wire may rewrite it
                    let truth = if present { 1 } else { 0 };
                    let mut net = net2();
                    let md = net.md();
                    if net.run(async move { md.init_single_group::<4, 64>(|| 0).await }).map(|r| r.is_ok()) != Ok(true) {
                        viol.push(("setup-failed".into(), "init failed".into()));
                        return n;
                    }
                    let d0 = net.seg.borrow().datagrams;
                    if received != truth {
                        net.seg.borrow_mut().wkc_rewrite = Some((d0 + 1, received));
                    }
                    let addr = if present { 0x1001u16 } else { 0x1234 };
                    let r: Result<Result<String, Error>, Stop> = net.run(async move {
                        match method {
                            0 => Command::fprd(addr, 0x0010).with_wkc(expected).receive::<u16>(md).await.map(|v| format!("{:#06x}", v)),
                            1 => Command::fprd(addr, 0x0010).with_wkc(expected).receive_slice(md, 2).await.map(|v| format!("{:02x?}", &*v)),
                            2 => Command::fpwr(addr, 0x0f80).with_wkc(expected).send_receive::<u16>(md, 0x1234u16).await.map(|v| format!("{:#06x}", v)),
                            _ => Command::fpwr(addr, 0x0f80).with_wkc(expected).send_receive_slice(md, 0x1234u16).await.map(|v| format!("{:02x?}", &*v)),
                        }
                    });
                    n += 1;
                    let name = ["receive", "receive_slice", "send_receive", "send_receive_slice"][method];
                    match r {
                        Ok(Ok(v)) => {
                            *outcomes.entry(format!("{} ok", name)).or_insert(0) += 1;
                            if received != expected {
                                viol.push((
                                    format!("data-returned-with-wrong-counter method={}", name),
                                    format!("{} with expected count {} returned Ok({}) although {} devices serviced the datagram", name, expected, v, received),
                                ));
                            }
                        }
                        Ok(Err(Error::WorkingCounter { expected: e, received: rcv })) => {
                            *outcomes.entry(format!("{} wkc-error", name)).or_insert(0) += 1;
                            if received == expected {
                                viol.push((format!("counter-error-although-matching method={}", name), format!("{} failed although expected == received == {}", name, expected)));
                            } else if e != expected || rcv != received {
                                viol.push((
                                    format!("counter-error-wrong-numbers method={}", name),
                                    format!("{}: error says expected {} received {}, truth is expected {} received {}", name, e, rcv, expected, received),
                                ));
                            }
                        }
                        Ok(Err(e)) => {
                            viol.push((format!("wrong-error-kind method={}", name), format!("{} with expected {} received {}: {:?}", name, expected, received, e)));
                        }
                        Err(stop) => viol.push((format!("did-not-return method={}", name), format!("{:?}", stop))),
                    }
                }
            }
        }
    }
    n
}

pub fn c11(tier: &Tier) -> Result<i32, String> {
    let mut rep = Report::new("C11", "fault_enumeration", tier);
    rep.rule = "(A) the four data-returning command builder methods x expected count 0..=3 x serviced count 0..=3 (absent address / wire rewriting the counter); (B) every listed entry point (register_read, register_write, status, eeprom_read_raw, eeprom_read, sdo_read expedited and normal, sdo_write, into_safe_op, into_op) with the device dropping out after the j-th datagram addressed to it, for every j up to the number of datagrams the healthy operation uses; (C) the working counter of the k-th datagram of each operation rewritten to 0, 2 and 3 for every k; where an unanswered datagram is tolerated the result (for the transitions: including the sync manager / FMMU registers programmed) must equal the healthy one; non-trivial = fault position inside the operation".into();
    rep.assumptions = vec![
        "WorkingCounter{expected, received} is required where a single datagram carries the data or acknowledgement handed to the caller (builder methods; the last datagram of register/EEPROM/SDO reads); for multi-step operations whose device vanishes in the middle the requirement is 'never Ok' (DESIGN.md appendix E)".into(),
        "ignore_wkc() callers and WrappedWrite::send are exempt as the property states; a rewritten counter on such a datagram must simply not crash anything".into(),
        "segment simulator stands for the hardware".into(),
    ];
    let mut viol: Vec<(String, String)> = Vec::new();
    let mut outcomes: BTreeMap<String, u64> = BTreeMap::new();
    rep.evaluations += builders(&mut viol, &mut outcomes);
    // (B) + (C)
    let ops: Vec<Op> = OPS.to_vec();
    let workers = crate::core::workers().min(ops.len());
    let _ = workers;
    let results: Vec<(u64, u64, Vec<(String, String)>, BTreeMap<String, u64>, String)> = std::thread::scope(|s| {
        let hs: Vec<_> = ops
            .iter()
            .map(|op| {
                let op = *op;
                let thorough = tier.thorough;
                s.spawn(move || {
                    let mut viol: Vec<(String, String)> = Vec::new();
                    let mut outcomes: BTreeMap<String, u64> = BTreeMap::new();
                    let mut n = 0u64;
                    let mut nt = 0u64;
                    let (healthy, dgrams, serviced, _) = run_op(op, Fault::None);
                    n += 1;
                    if healthy.is_err() {
                        viol.push((format!("healthy-operation-failed op={:?}", op), format!("{:?} on a healthy network: {:?}", op, healthy)));
                        return (n, nt, viol, outcomes, String::new());
                    }
                    let healthy_value: Option<String> = healthy.clone().ok();
                    let sample = format!("{:?}: healthy uses {} datagrams, {} serviced by the device; healthy result {:?}", op, dgrams, serviced, healthy);
                    // (B) vanish after j serviced datagrams
                    let step = if serviced > 400 && !thorough { 3 } else { 1 };
                    let mut j = 0;
                    while j < serviced {
                        let (r, _, _, stop) = run_op(op, Fault::Vanish(j));
                        n += 1;
                        nt += 1;
                        match (&r, &stop) {
                            (_, Some(Stop::Panic(p))) => viol.push((format!("panic op={:?}", op), format!("{:?} panicked when the device vanished after {} datagrams: {}", op, j, p))),
                            (_, Some(s)) => viol.push((format!("did-not-return op={:?}", op), format!("{:?} did not return when the device vanished after {} datagrams: {:?}", op, j, s))),
                            (Ok(v), None) => viol.push((
                                format!("completed-for-silent-device op={:?}", op),
                                format!("{:?} returned Ok({}) although the device stopped answering after {} of {} datagrams", op, v, j, serviced),
                            )),
                            (Err(e), None) => {
                                let kind = e.split(|c: char| !c.is_alphanumeric()).next().unwrap_or("").to_string();
                                *outcomes.entry(format!("{:?} vanish -> {}", op, kind)).or_insert(0) += 1;
                                // single-datagram operations must say WorkingCounter{1, 0}
                                if matches!(op, Op::RegisterRead | Op::RegisterWrite) && !e.contains("WorkingCounter { expected: 1, received: 0 }") {
                                    viol.push((format!("wrong-error-kind op={:?}", op), format!("{:?} with a silent device: {}", op, e)));
                                }
                            }
                        }
                        j += step;
                    }
                    // (C) rewrite the counter of the k-th datagram
                    let kstep = if dgrams > 400 && !thorough { 5 } else { 1 };
                    let mut k = 1;
                    while k <= dgrams {
                        for v in [0u16, 2, 3] {
                            let (r, _, _, stop) = run_op(op, Fault::Rewrite(k, v));
                            n += 1;
                            nt += 1;
                            if let Some(Stop::Panic(p)) = &stop {
                                viol.push((format!("panic op={:?}", op), format!("{:?} panicked when datagram {} came back with counter {}: {}", op, k, v, p)));
                                continue;
                            }
                            let is_final = k == dgrams && matches!(op, Op::RegisterRead | Op::RegisterWrite | Op::EepromReadRaw | Op::EepromReadTyped | Op::SdoRead | Op::SdoReadNormal | Op::SdoWrite);
                            match &r {
                                Ok(val) if is_final => viol.push((
                                    format!("data-returned-with-wrong-counter op={:?}", op),
                                    format!("{:?} returned Ok({}) although the datagram carrying the result came back with working counter {}", op, val, v),
                                )),
                                Err(e) if is_final && !e.contains(&format!("WorkingCounter {{ expected: 1, received: {} }}", v)) => viol.push((
                                    format!("wrong-error-kind op={:?}", op),
                                    format!("{:?}: result datagram came back with counter {}, error is {}", op, v, e),
                                )),
                                // an unanswered datagram that is tolerated (status polls, reads whose
                                // counter is documented as ignored) must not change what the operation
                                // returns or configures
                                Ok(val) if v == 0 && Some(val) != healthy_value.as_ref() => viol.push((
                                    format!("unanswered-datagram-changed-the-outcome op={:?}", op),
                                    format!("{:?} returned Ok({}) with datagram {} unanswered (counter 0); the healthy operation returns Ok({})", op, val, k, healthy_value.clone().unwrap_or_default()),
                                )),
                                Ok(_) => *outcomes.entry(format!("{:?} rewrite tolerated", op)).or_insert(0) += 1,
                                Err(_) => *outcomes.entry(format!("{:?} rewrite -> error", op)).or_insert(0) += 1,
                            }
                        }
                        k += kstep;
                    }
                    (n, nt, viol, outcomes, sample)
                })
            })
            .collect();
        hs.into_iter().map(|h| h.join().expect("c11 worker")).collect()
    });
    for (n, nt, v, o, sample) in results {
        rep.evaluations += n;
        rep.nontrivial += nt;
        for x in v {
            if !viol.iter().any(|y| y.0 == x.0) {
                viol.push(x);
            }
        }
        for (k, c) in o {
            *outcomes.entry(k).or_insert(0) += c;
        }
        if !sample.is_empty() {
            rep.samples.push(json!(sample));
        }
    }
    rep.outcomes = outcomes;
    rep.nontrivial += 128;
    for (s, m) in viol {
        rep.violation(&s, &m, json!({"engine": "c11", "detail": m}));
    }
    rep.states = rep.evaluations;
    rep.transitions = rep.evaluations;
    Ok(rep.finish())
}
