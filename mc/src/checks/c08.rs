//! C08: process data of one SubDevice reaches that SubDevice and nothing else.

use crate::coe::CoeServer;
use crate::eeprom::{Cat, DeviceDesc, MailboxDesc, PdoDesc, SmDesc};
use crate::net::{Net, Stop};
use crate::report::{Report, Tier};
use crate::sim::{Device, Segment};
use ethercrab::error::Error;
use ethercrab::SubDeviceGroup;
use serde_json::json;
use std::collections::BTreeMap;

/// One direction of a device: sync managers, each with PDOs, each with entry bit lengths.
type DirShape = Vec<Vec<Vec<u8>>>;

#[derive(Clone, Debug)]
pub struct DevShape {
    pub inputs: DirShape,
    pub outputs: DirShape,
    pub coe: bool,
    pub fmmu_ex: bool,
    /// oversampling factor applied to the first PDO of each direction
    pub oversampling: u16,
}

fn dir_shapes() -> Vec<DirShape> {
    vec![
        vec![],
        vec![vec![vec![8]]],
        vec![vec![vec![1, 7], vec![9]]],
        vec![vec![vec![16, 64]]],
        vec![vec![vec![8]], vec![vec![9], vec![1]]],
        vec![vec![]],
        vec![vec![vec![1]]],
        vec![vec![vec![64]], vec![vec![7]]],
        // two sync managers that both end inside a byte: per-SM rounding differs from per-device rounding
        vec![vec![vec![4]], vec![vec![4]]],
        vec![vec![vec![3]], vec![vec![12]]],
    ]
}

pub struct Built {
    pub dev: Device,
    /// (sm index, physical start, byte length, is_input)
    pub windows: Vec<(u8, u16, usize, bool)>,
    pub oversample_cfg: &'static [(u16, u16)],
}

fn sm_bytes(sm: &[Vec<u8>], first_pdo_factor: u32) -> usize {
    let mut bits = 0u32;
    for (k, pdo) in sm.iter().enumerate() {
        let b: u32 = pdo.iter().map(|x| u32::from(*x)).sum();
        bits += b * if k == 0 { first_pdo_factor } else { 1 };
    }
    ((bits + 7) / 8) as usize
}

static OS_IN: [(u16, u16); 1] = [(0x1a00, 2)];
static OS_OUT: [(u16, u16); 1] = [(0x1600, 2)];
static OS_BOTH: [(u16, u16); 2] = [(0x1a00, 2), (0x1600, 2)];
static OS_NONE: [(u16, u16); 0] = [];

pub fn build(i: usize, s: &DevShape) -> Built {
    let mut d = DeviceDesc {
        product: 0x5000 + i as u32,
        ..Default::default()
    };
    d.strings = vec![format!("SH{}", i).into_bytes(), b"shape".to_vec()];
    let mut sms: Vec<SmDesc> = Vec::new();
    let mut fmmus: Vec<u8> = Vec::new();
    if s.coe {
        d.mailbox = Some(MailboxDesc { rx_offset: 0x1800, rx_size: 64, tx_offset: 0x1c00, tx_size: 64, protocols: 0x04 });
        sms.push(SmDesc { start: 0x1800, len: 64, control: 0x26, enable: 1, usage: 1 });
        sms.push(SmDesc { start: 0x1c00, len: 64, control: 0x22, enable: 1, usage: 2 });
    }
    let mut windows = Vec::new();
    let mut coe = CoeServer::new(64);
    let mut tx_pdos = Vec::new();
    let mut rx_pdos = Vec::new();
    let f = u32::from(s.oversampling);
    // outputs first (like Beckhoff terminals: SM2 outputs, SM3 inputs)
    for (is_input, shape) in [(false, &s.outputs), (true, &s.inputs)] {
        for (k, sm) in shape.iter().enumerate() {
            let idx = sms.len() as u8;
            // non-adjacent physical windows
            let start: u16 = if is_input { 0x2000 + 0x100 * k as u16 } else { 0x1100 + 0x100 * k as u16 };
            // oversampling is configured for the first PDO of the first sync manager of a direction
            let bytes = sm_bytes(sm, if k == 0 { f } else { 1 });
            sms.push(SmDesc { start, len: bytes as u16, control: if is_input { 0x20 } else { 0x64 }, enable: 1, usage: if is_input { 4 } else { 3 } });
            fmmus.push(if is_input { 2 } else { 1 });
            windows.push((idx, start, bytes, is_input));
            let mut assigned: Vec<u16> = Vec::new();
            for (p, pdo) in sm.iter().enumerate() {
                let pidx: u16 = if is_input { 0x1a00 } else { 0x1600 } + (k * 4 + p) as u16;
                let desc = PdoDesc { index: pidx, sm: idx, entries: pdo.clone() };
                if is_input {
                    tx_pdos.push(desc);
                } else {
                    rx_pdos.push(desc);
                }
                assigned.push(pidx);
                coe.od.insert((pidx, 0), vec![pdo.len() as u8]);
                for (e, bits) in pdo.iter().enumerate() {
                    // mapping entry: bit length, sub index, index
                    let mut m = vec![*bits, (e + 1) as u8];
                    m.extend_from_slice(&(0x6000u16 + e as u16).to_le_bytes());
                    coe.od.insert((pidx, (e + 1) as u8), m);
                }
            }
            let assign_obj = 0x1c10 + u16::from(idx);
            coe.od.insert((assign_obj, 0), vec![assigned.len() as u8]);
            for (a, pidx) in assigned.iter().enumerate() {
                coe.od.insert((assign_obj, (a + 1) as u8), pidx.to_le_bytes().to_vec());
            }
        }
    }
    d.sms = sms;
    d.fmmus = fmmus;
    d.tx_pdos = tx_pdos;
    d.rx_pdos = rx_pdos;
    d.order = vec![Cat::Strings, Cat::General, Cat::Fmmu, Cat::SyncM, Cat::TxPdo, Cat::RxPdo];
    if s.fmmu_ex {
        d.fmmu_ex = (0..d.sms.len() as u8).collect();
        d.order.push(Cat::FmmuEx);
    }
    d.size_kbit = 8;
    let mut dev = Device::new(d.image());
    if s.coe {
        dev.coe = Some(coe);
    }
    let has_in = s.inputs.iter().any(|sm| !sm.is_empty());
    let has_out = s.outputs.iter().any(|sm| !sm.is_empty());
    let oversample_cfg: &'static [(u16, u16)] = if s.oversampling < 2 {
        &OS_NONE
    } else if has_in && has_out {
        &OS_BOTH
    } else if has_in {
        &OS_IN
    } else {
        &OS_OUT
    };
    Built { dev, windows, oversample_cfg }
}

macro_rules! with_pdi {
    ($pdi:expr, $f:ident, $($arg:expr),*) => {
        match $pdi {
            1 => $f::<1>($($arg),*),
            2 => $f::<2>($($arg),*),
            3 => $f::<3>($($arg),*),
            4 => $f::<4>($($arg),*),
            6 => $f::<6>($($arg),*),
            8 => $f::<8>($($arg),*),
            12 => $f::<12>($($arg),*),
            16 => $f::<16>($($arg),*),
            24 => $f::<24>($($arg),*),
            32 => $f::<32>($($arg),*),
            64 => $f::<64>($($arg),*),
            _ => $f::<128>($($arg),*),
        }
    };
}

const PDI_SIZES: [usize; 12] = [1, 2, 3, 4, 6, 8, 12, 16, 24, 32, 64, 128];

struct GroupsN<const PDI: usize> {
    g: [SubDeviceGroup<4, PDI>; 3],
}

impl<const PDI: usize> Default for GroupsN<PDI> {
    fn default() -> Self {
        Self { g: [Default::default(), Default::default(), Default::default()] }
    }
}

fn in_byte(d: usize, sm: u8, i: usize) -> u8 {
    (0x80 | ((d * 31 + sm as usize * 11 + i * 3 + 1) & 0x7f)) as u8
}
fn out_byte(d: usize, i: usize) -> u8 {
    (0x40 | ((d * 17 + i * 5 + 2) & 0x3f)) as u8
}

#[derive(Clone, Debug)]
pub struct NetCase {
    pub shapes: Vec<DevShape>,
    pub assign: Vec<u8>,
    /// Ethernet frame capacity of the MainDevice (1100 = one LRW per cycle; 44 = 16 data bytes per frame)
    pub frame: usize,
}

pub struct CaseOut {
    pub outcome: String,
    pub viol: Vec<(String, String)>,
}

fn run_case<const PDI: usize>(case: &NetCase, expect_too_long: bool) -> CaseOut {
    let mut viol: Vec<(String, String)> = Vec::new();
    let n = case.shapes.len();
    let built: Vec<Built> = case.shapes.iter().enumerate().map(|(i, s)| build(i, s)).collect();
    let windows: Vec<Vec<(u8, u16, usize, bool)>> = built.iter().map(|b| b.windows.clone()).collect();
    let os: Vec<&'static [(u16, u16)]> = built.iter().map(|b| b.oversample_cfg).collect();
    let mut net = Net::with_size(Segment::new(built.into_iter().map(|b| b.dev).collect()), crate::net::timeouts(), ethercrab::RetryBehaviour::None, case.frame);
    let md = net.md();
    let assign = case.assign.clone();
    let os2 = os.clone();
    let ctx = format!("{:?}", case);
    let r = net.run(async move {
        let mut groups = md
            .init::<8, _>(|| 0, GroupsN::<PDI>::default(), move |g, sd| {
                let i = (sd.identity().product_id - 0x5000) as usize;
                Ok(&g.g[assign[i] as usize % 3])
            })
            .await?;
        for g in groups.g.iter_mut() {
            for mut sd in g.iter_mut(md) {
                let i = (sd.identity().product_id - 0x5000) as usize;
                sd.set_oversampling(os2[i]);
            }
        }
        let [a, b, c] = groups.g;
        let a = a.into_safe_op(md).await?;
        let b = b.into_safe_op(md).await?;
        let c = c.into_safe_op(md).await?;
        Ok::<_, Error>([a, b, c])
    });
    let groups = match r {
        Ok(Ok(g)) => g,
        Ok(Err(Error::PdiTooLong { .. })) if expect_too_long => {
            return CaseOut { outcome: "PdiTooLong as expected".into(), viol };
        }
        Ok(Err(e)) => {
            let es = format!("{:?}", e);
            viol.push((format!("bring-up-failed {}", es.chars().take(36).collect::<String>()), format!("into_safe_op failed: {} [{}]", es, ctx)));
            return CaseOut { outcome: "bring-up failed".into(), viol };
        }
        Err(Stop::Panic(p)) => {
            viol.push(("panic bring-up".into(), format!("{} [{}]", p, ctx)));
            return CaseOut { outcome: "panic".into(), viol };
        }
        Err(s) => {
            viol.push(("bring-up-did-not-finish".into(), format!("{:?} [{}]", s, ctx)));
            return CaseOut { outcome: "hang".into(), viol };
        }
    };
    if expect_too_long {
        viol.push(("oversize-layout-accepted".into(), format!("the layout needs more than {} bytes but into_safe_op succeeded [{}]", PDI, ctx)));
        return CaseOut { outcome: "too long accepted".into(), viol };
    }
    // ---- structural clauses from the devices' FMMUs (ground truth) -----------------------------
    {
        let seg = net.seg.borrow();
        let mut all: Vec<(usize, u32, u32, bool)> = Vec::new(); // dev, start, end, is_read
        for (i, d) in seg.devices.iter().enumerate() {
            for (ls, len, _phys, rd, wr, ..) in d.fmmus() {
                if len > 0 {
                    all.push((i, ls, ls + u32::from(len), rd && !wr));
                }
            }
        }
        for (x, a) in all.iter().enumerate() {
            for b in all.iter().skip(x + 1) {
                if a.1 < b.2 && b.1 < a.2 {
                    viol.push(("logical-windows-overlap".into(), format!("logical ranges {:#x}..{:#x} (device {}) and {:#x}..{:#x} (device {}) overlap [{}]", a.1, a.2, a.0, b.1, b.2, b.0, ctx)));
                }
            }
        }
        for g in 0..3u8 {
            let members: Vec<usize> = (0..n).filter(|i| case.assign[*i] % 3 == g).collect();
            let ins: Vec<&(usize, u32, u32, bool)> = all.iter().filter(|x| members.contains(&x.0) && x.3).collect();
            let outs: Vec<&(usize, u32, u32, bool)> = all.iter().filter(|x| members.contains(&x.0) && !x.3).collect();
            if let (Some(imax), Some(omin)) = (ins.iter().map(|x| x.2).max(), outs.iter().map(|x| x.1).min()) {
                if imax > omin {
                    viol.push(("inputs-not-before-outputs".into(), format!("group {}: an input window ends at {:#x} after an output window starts at {:#x} [{}]", g, imax, omin, ctx)));
                }
            }
        }
    }
    // ---- end-to-end: patterns through one cycle ------------------------------------------------
    {
        let mut seg = net.seg.borrow_mut();
        for (i, w) in windows.iter().enumerate() {
            for (sm, start, len, is_in) in w {
                if *is_in {
                    for k in 0..*len {
                        seg.devices[i].mem[*start as usize + k] = in_byte(i, *sm, k);
                    }
                }
            }
        }
    }
    let before: Vec<Vec<u8>> = net.seg.borrow().devices.iter().map(|d| d.mem[0x1000..0x3000].to_vec()).collect();
    let [ga, gb, gc] = &groups;
    let grefs = [ga, gb, gc];
    let mut dev_of: Vec<(usize, usize)> = Vec::new(); // device -> (group, index in group)
    let mut counters = [0usize; 3];
    for i in 0..n {
        let g = (case.assign[i] % 3) as usize;
        dev_of.push((g, counters[g]));
        counters[g] += 1;
    }
    // the application writes outputs
    for i in 0..n {
        let (g, k) = dev_of[i];
        let sd = match grefs[g].subdevice(md, k) {
            Ok(sd) => sd,
            Err(e) => {
                viol.push(("subdevice-missing".into(), format!("{:?} [{}]", e, ctx)));
                continue;
            }
        };
        let want_out: usize = windows[i].iter().filter(|w| !w.3).map(|w| w.2).sum();
        let want_in: usize = windows[i].iter().filter(|w| w.3).map(|w| w.2).sum();
        let mut o = sd.outputs_raw_mut();
        if o.len() != want_out {
            viol.push((
                format!("output-window-length {}", if case.shapes[i].coe { "coe" } else { "eeprom" }),
                format!("device {} output window is {} bytes, its PDO configuration needs {} [{}]", i, o.len(), want_out, ctx),
            ));
        }
        for (k2, b) in o.iter_mut().enumerate() {
            *b = out_byte(i, k2);
        }
        drop(o);
        let il = sd.inputs_raw().len();
        if il != want_in {
            viol.push((
                format!("input-window-length {}", if case.shapes[i].coe { "coe" } else { "eeprom" }),
                format!("device {} input window is {} bytes, its PDO configuration needs {} [{}]", i, il, want_in, ctx),
            ));
        }
    }
    for g in 0..3 {
        if counters[g] == 0 {
            continue;
        }
        let gr = grefs[g];
        match net.run(async move { gr.tx_rx(md).await.map(|r| r.working_counter) }) {
            Ok(Ok(_)) => {}
            o => viol.push(("cycle-failed".into(), format!("tx_rx of group {}: {:?} [{}]", g, o, ctx))),
        }
    }
    let seg = net.seg.borrow();
    for i in 0..n {
        let (g, k) = dev_of[i];
        let Ok(sd) = grefs[g].subdevice(md, k) else { continue };
        let how = if case.shapes[i].coe { "coe" } else { "eeprom" };
        // expected device memory: unchanged except output windows = this device's pattern
        let mut want = before[i].clone();
        let mut off = 0usize;
        for (_sm, start, len, is_in) in windows[i].iter().filter(|w| !w.3) {
            let _ = is_in;
            for k2 in 0..*len {
                want[*start as usize - 0x1000 + k2] = out_byte(i, off + k2);
            }
            off += len;
        }
        let got = &seg.devices[i].mem[0x1000..0x3000];
        if got != &want[..] {
            let first = (0..got.len()).find(|x| got[*x] != want[*x]).unwrap_or(0);
            let multi = windows[i].iter().filter(|w| !w.3 && w.2 > 0).count() >= 2;
            viol.push((
                format!("outputs-land-elsewhere {} {}", how, if multi { "two-output-sync-managers" } else { "single" }),
                format!("device {} process memory differs from 'outputs at their sync manager windows, everything else untouched' first at {:#06x}: holds {:#04x}, expected {:#04x} [{}]", i, 0x1000 + first, got[first], want[first], ctx),
            ));
        }
        // expected inputs: input windows in sync manager order
        let mut want_in: Vec<u8> = Vec::new();
        for (sm, _start, len, _) in windows[i].iter().filter(|w| w.3) {
            for k2 in 0..*len {
                want_in.push(in_byte(i, *sm, k2));
            }
        }
        let got_in = sd.inputs_raw().to_vec();
        if got_in != want_in {
            let multi = windows[i].iter().filter(|w| w.3 && w.2 > 0).count() >= 2;
            viol.push((
                format!("inputs-from-elsewhere {} {}", how, if multi { "two-input-sync-managers" } else { "single" }),
                format!("device {} inputs read {:02x?}, its input memory holds {:02x?} [{}]", i, got_in, want_in, ctx),
            ));
        }
    }
    CaseOut { outcome: "ok".into(), viol }
}

/// The path PRE-OP -> configure_dc_sync -> into_op (the typestate allows it): the windows must
/// still be configured.
fn dc_sync_path(viol: &mut Vec<(String, String)>) -> u64 {
    use ethercrab::subdevice_group::DcConfiguration;
    use ethercrab::DcSync;
    use std::time::Duration;
    let shape = DevShape { inputs: dir_shapes()[1].clone(), outputs: dir_shapes()[1].clone(), coe: false, fmmu_ex: false, oversampling: 1 };
    let mut n = 0;
    for pdi_first in [true, false] {
        let mut b = build(0, &shape);
        b.dev.dc.supported = true;
        b.dev.dc.enhanced = true;
        b.dev.dc.bits64 = true;
        let mut net = Net::new(Segment::new(vec![b.dev]));
        let md = net.md();
        n += 1;
        let r = net.run(async move {
            let mut g = md.init_single_group::<2, 8>(|| 0).await?;
            for mut sd in g.iter_mut(md) {
                sd.set_dc_sync(DcSync::Sync0);
            }
            let conf = DcConfiguration { start_delay: Duration::from_millis(1), sync0_period: Duration::from_millis(1), sync0_shift: Duration::ZERO };
            // each branch goes all the way to OP on its own, so this compiles whichever typestate
            // configure_dc_sync returns
            let (il, ol) = if pdi_first {
                let g = g.into_pre_op_pdi(md).await?.configure_dc_sync(md, conf).await?.into_op(md).await?;
                let sd = g.subdevice(md, 0)?;
                let il = sd.inputs_raw().len();
                let ol = sd.outputs_raw().len();
                (il, ol)
            } else {
                let g = g.configure_dc_sync(md, conf).await?.into_op(md).await?;
                let sd = g.subdevice(md, 0)?;
                let il = sd.inputs_raw().len();
                let ol = sd.outputs_raw().len();
                (il, ol)
            };
            Ok::<_, Error>((il, ol))
        });
        match r {
            Ok(Ok((1, 1))) => {}
            Ok(Ok((i, o))) => viol.push((
                format!("windows-not-configured path={}", if pdi_first { "pdi-then-dc-sync" } else { "dc-sync-from-pre-op" }),
                format!("after PRE-OP -> {}configure_dc_sync -> into_op the device has an input window of {} and an output window of {} bytes, its PDOs need 1 and 1; no FMMU/SM was programmed", if pdi_first { "into_pre_op_pdi -> " } else { "" }, i, o),
            )),
            o => viol.push(("dc-sync-path-failed".into(), format!("{:?}", o))),
        }
    }
    n
}

fn required_len(case: &NetCase, g: u8) -> usize {
    case.shapes
        .iter()
        .enumerate()
        .filter(|(i, _)| case.assign[*i] % 3 == g)
        .map(|(_, s)| {
            let f = u32::from(s.oversampling);
            s.inputs.iter().enumerate().map(|(k, sm)| sm_bytes(sm, if k == 0 { f } else { 1 })).sum::<usize>()
                + s.outputs.iter().enumerate().map(|(k, sm)| sm_bytes(sm, if k == 0 { f } else { 1 })).sum::<usize>()
        })
        .sum()
}

pub fn c08(tier: &Tier) -> Result<i32, String> {
    let mut rep = Report::new("C08", "exploration", tier);
    rep.rule = "device shapes enumerated from a grammar: per direction one of 10 sync-manager/PDO layouts (0..=2 sync managers at non-adjacent physical windows, 0..=2 PDOs each, entry bit lengths from {1,3,4,7,8,9,12,16,64}, including two sync managers that both end inside a byte), configured from EEPROM or from CoE assignment objects, with/without FMMU_EX, oversampling 1 or 2 on the first PDO; all single-device networks, pairs and triples of 7 representative shapes in every split over 1..=3 groups, pairs and half of the triples of EEPROM-configured shapes also with 44-byte frames (image split over several LRW frames); image capacity = the smallest instantiated size that fits, and the largest that does not; end-to-end oracle: tagged patterns through one tx_rx cycle compared with the devices' process memory and input windows; structural clauses from the FMMU registers programmed into the devices; non-trivial = every network".into();
    rep.assumptions = vec![
        "process-data sync managers are modelled as guarded RAM, FMMUs byte-wise (DESIGN.md appendix E); 16 functional FMMUs/SMs so that the choice of FMMU index is never judged".into(),
        "frame capacity 1100 (one LRW per cycle) and, for pairs and half of the triples, 44 (16 data bytes per LRW, the image is split over several frames)".into(),
    ];
    let ds = dir_shapes();
    let mut cases: Vec<NetCase> = Vec::new();
    // singles: every (inputs, outputs) shape x coe x fmmu_ex x oversampling
    for i in 0..ds.len() {
        for o in 0..ds.len() {
            for coe in [false, true] {
                for fx in [false, true] {
                    for os in [1u16, 2] {
                        if os == 2 && ds[i].iter().all(|sm| sm.is_empty()) && ds[o].iter().all(|sm| sm.is_empty()) {
                            continue;
                        }
                        cases.push(NetCase { shapes: vec![DevShape { inputs: ds[i].clone(), outputs: ds[o].clone(), coe, fmmu_ex: fx, oversampling: os }], assign: vec![0], frame: 1100 });
                    }
                }
            }
        }
    }
    // pairs / triples of representative shapes
    let reps: Vec<DevShape> = vec![
        DevShape { inputs: ds[1].clone(), outputs: ds[1].clone(), coe: false, fmmu_ex: false, oversampling: 1 },
        DevShape { inputs: ds[2].clone(), outputs: ds[0].clone(), coe: false, fmmu_ex: true, oversampling: 1 },
        DevShape { inputs: ds[0].clone(), outputs: ds[3].clone(), coe: true, fmmu_ex: false, oversampling: 1 },
        DevShape { inputs: ds[6].clone(), outputs: ds[2].clone(), coe: true, fmmu_ex: false, oversampling: 2 },
        DevShape { inputs: ds[5].clone(), outputs: ds[6].clone(), coe: false, fmmu_ex: false, oversampling: 1 },
        DevShape { inputs: ds[8].clone(), outputs: ds[9].clone(), coe: false, fmmu_ex: false, oversampling: 1 },
        DevShape { inputs: ds[3].clone(), outputs: ds[3].clone(), coe: false, fmmu_ex: false, oversampling: 1 },
    ];
    // 16-byte frames cannot carry a mailbox message: the split variant is for EEPROM-configured devices
    let small_ok = |shapes: &[&DevShape]| shapes.iter().all(|s| !s.coe);
    for a in 0..reps.len() {
        for b in 0..reps.len() {
            for split in [vec![0u8, 0], vec![0, 1]] {
                cases.push(NetCase { shapes: vec![reps[a].clone(), reps[b].clone()], assign: split.clone(), frame: 1100 });
                // the same network with frames that carry 16 process data bytes: the image is split
                if small_ok(&[&reps[a], &reps[b]]) {
                    cases.push(NetCase { shapes: vec![reps[a].clone(), reps[b].clone()], assign: split, frame: 44 });
                }
            }
            if tier.thorough || (a + b) % 3 == 0 {
                for c in 0..reps.len() {
                    for split in [vec![0u8, 0, 0], vec![0, 1, 0], vec![0, 1, 2], vec![1, 1, 0]] {
                        if !tier.thorough && (a + b + c) % 2 == 1 {
                            continue;
                        }
                        cases.push(NetCase { shapes: vec![reps[a].clone(), reps[b].clone(), reps[c].clone()], assign: split.clone(), frame: 1100 });
                        if (a + c) % 2 == 0 && small_ok(&[&reps[a], &reps[b], &reps[c]]) {
                            cases.push(NetCase { shapes: vec![reps[a].clone(), reps[b].clone(), reps[c].clone()], assign: split, frame: 44 });
                        }
                    }
                }
            }
        }
    }
    let workers = crate::core::workers();
    let next = std::sync::atomic::AtomicUsize::new(0);
    type Out = (u64, BTreeMap<String, u64>, Vec<(String, String)>);
    let outs: Vec<Out> = std::thread::scope(|s| {
        let hs: Vec<_> = (0..workers)
            .map(|_| {
                let cases = &cases;
                let next = &next;
                s.spawn(move || {
                    let mut n = 0u64;
                    let mut outcomes: BTreeMap<String, u64> = BTreeMap::new();
                    let mut viol: Vec<(String, String)> = Vec::new();
                    loop {
                        let i = next.fetch_add(1, std::sync::atomic::Ordering::SeqCst);
                        if i >= cases.len() {
                            break;
                        }
                        let c = &cases[i];
                        let need = (0..3u8).map(|g| required_len(c, g)).max().unwrap_or(0);
                        let fit = PDI_SIZES.iter().copied().find(|s| *s >= need).unwrap_or(128);
                        let o = with_pdi!(fit, run_case, c, false);
                        n += 1;
                        *outcomes.entry(format!("fits: {}", o.outcome)).or_insert(0) += 1;
                        for v in o.viol {
                            if !viol.iter().any(|x| x.0 == v.0) {
                                viol.push(v);
                            }
                        }
                        // the largest capacity that is too small
                        if let Some(small) = PDI_SIZES.iter().copied().filter(|s| *s < need).max() {
                            let o = with_pdi!(small, run_case, c, true);
                            n += 1;
                            *outcomes.entry(format!("too small: {}", o.outcome)).or_insert(0) += 1;
                            for v in o.viol {
                                if !viol.iter().any(|x| x.0 == v.0) {
                                    viol.push(v);
                                }
                            }
                        }
                    }
                    (n, outcomes, viol)
                })
            })
            .collect();
        hs.into_iter().map(|h| h.join().expect("c08 worker")).collect()
    });
    for (n, outcomes, viol) in outs {
        rep.evaluations += n;
        rep.nontrivial += n;
        for (k, v) in outcomes {
            *rep.outcomes.entry(k).or_insert(0) += v;
        }
        for (s, m) in viol {
            rep.violation(&s, &m, json!({"engine": "c08", "detail": m}));
        }
    }
    {
        let mut v = Vec::new();
        let n = dc_sync_path(&mut v);
        rep.evaluations += n;
        rep.nontrivial += n;
        for (s, m) in v {
            rep.violation(&s, &m, json!({"engine": "c08", "detail": m}));
        }
    }
    rep.states = rep.evaluations;
    rep.transitions = rep.evaluations;
    rep.samples.push(json!(format!("{:?}", cases[cases.len() / 3])));
    rep.samples.push(json!(format!("{:?}", cases[cases.len() - 1])));
    Ok(rep.finish())
}
