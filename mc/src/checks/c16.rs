//! C16: no mailbox reply can crash the MainDevice or make it read out of bounds.

use crate::checks::c13::Acc;
use crate::checks::c15::bring_up2;
use crate::net::Stop;
use crate::report::{Report, Tier};
use ethercrab::error::Error;
use ethercrab::ObjectDescriptionListQuery;
use serde_json::json;

#[derive(Clone, Copy, Debug, PartialEq, Eq)]
pub enum Entry {
    ReadU32,
    ReadArr16,
    ReadArr24Segmented,
    Write,
    InfoList,
    InfoQuantities,
}

const ENTRIES: [Entry; 6] = [Entry::ReadU32, Entry::ReadArr16, Entry::ReadArr24Segmented, Entry::Write, Entry::InfoList, Entry::InfoQuantities];

fn mbx(len: usize, counter: u8, ty: u8) -> Vec<u8> {
    let mut v = Vec::new();
    v.extend_from_slice(&(len as u16).to_le_bytes());
    v.extend_from_slice(&[0, 0, 0]);
    v.push((ty & 0x0f) | ((counter & 7) << 4));
    v
}

/// The well-formed replies of each step of an exchange (tagged payload bytes 0x41..).
fn valid_replies(e: Entry) -> Vec<Vec<u8>> {
    let tag = |n: usize| -> Vec<u8> { (0..n).map(|i| 0x41 + (i % 26) as u8).collect() };
    match e {
        Entry::ReadU32 => {
            let mut v = mbx(10, 1, 3);
            v.extend_from_slice(&0x3000u16.to_le_bytes());
            v.push((2 << 5) | 0x03); // expedited, size indicated, 4 bytes
            v.extend_from_slice(&0x2000u16.to_le_bytes());
            v.push(1);
            v.extend_from_slice(&tag(4));
            vec![v]
        }
        Entry::ReadArr16 => {
            let mut v = mbx(10 + 16, 1, 3);
            v.extend_from_slice(&0x3000u16.to_le_bytes());
            v.push((2 << 5) | 0x01);
            v.extend_from_slice(&0x2000u16.to_le_bytes());
            v.push(1);
            v.extend_from_slice(&16u32.to_le_bytes());
            v.extend_from_slice(&tag(16));
            vec![v]
        }
        Entry::ReadArr24Segmented => {
            // initial response with 10 bytes, then two segments of 7
            let mut a = mbx(10 + 10, 1, 3);
            a.extend_from_slice(&0x3000u16.to_le_bytes());
            a.push((2 << 5) | 0x01);
            a.extend_from_slice(&0x2000u16.to_le_bytes());
            a.push(1);
            a.extend_from_slice(&24u32.to_le_bytes());
            a.extend_from_slice(&tag(10));
            let seg = |last: bool, toggle: bool| {
                let mut s = mbx(3 + 7, 2, 3);
                s.extend_from_slice(&0x3000u16.to_le_bytes());
                s.push(u8::from(last) | if toggle { 0x10 } else { 0 });
                s.extend_from_slice(&tag(7));
                s
            };
            vec![a, seg(false, false), seg(true, true)]
        }
        Entry::Write => {
            let mut v = mbx(10, 1, 3);
            v.extend_from_slice(&0x3000u16.to_le_bytes());
            v.push(3 << 5);
            v.extend_from_slice(&0x2000u16.to_le_bytes());
            v.push(1);
            v.extend_from_slice(&[0, 0, 0, 0]);
            vec![v]
        }
        Entry::InfoList | Entry::InfoQuantities => {
            let payload: Vec<u8> = if e == Entry::InfoList {
                let mut p = vec![1, 0];
                for i in 0..8u16 {
                    p.extend_from_slice(&(0x1000 + i).to_le_bytes());
                }
                p
            } else {
                let mut p = vec![0, 0];
                for i in 0..5u16 {
                    p.extend_from_slice(&(10 + i).to_le_bytes());
                }
                p
            };
            let mut v = mbx(6 + payload.len(), 1, 3);
            v.extend_from_slice(&0x8000u16.to_le_bytes());
            v.push(0x02);
            v.push(0);
            v.extend_from_slice(&0u16.to_le_bytes());
            v.extend_from_slice(&payload);
            vec![v]
        }
    }
}

/// Field perturbations of one reply: (description, bytes).
fn perturb(reply: &[u8], thorough: bool) -> Vec<(String, Vec<u8>)> {
    let mut v: Vec<(String, Vec<u8>)> = Vec::new();
    // every truncation length
    for l in 0..=reply.len() {
        v.push((format!("truncated to {}", l), reply[..l].to_vec()));
    }
    // mailbox length field: 16 bit, full range in thorough, boundaries + 0..=64 otherwise
    let lens: Vec<u16> = if thorough { (0..=0xffffu32).map(|x| x as u16).collect() } else { (0..=64u16).chain([127, 128, 255, 256, 1023, 1024, 0x7fff, 0x8000, 0xfffe, 0xffff]).collect() };
    for l in lens {
        let mut b = reply.to_vec();
        b[0..2].copy_from_slice(&l.to_le_bytes());
        v.push((format!("mailbox length {}", l), b));
    }
    // mailbox type nibble / counter
    for t in 0..=255u8 {
        let mut b = reply.to_vec();
        b[5] = t;
        v.push((format!("type/counter byte {:#04x}", t), b));
    }
    // CoE header: number (9 bits) and service (4 bits): all 16 services, a few numbers
    for svc in 0..16u16 {
        for num in [0u16, 1, 0x1ff] {
            let mut b = reply.to_vec();
            b[6..8].copy_from_slice(&((svc << 12) | num).to_le_bytes());
            v.push((format!("coe service {} number {}", svc, num), b));
        }
    }
    // first body byte: SDO command / size / flags, or SDO-info opcode+incomplete: all 256 values
    if reply.len() > 8 {
        for x in 0..=255u8 {
            let mut b = reply.to_vec();
            b[8] = x;
            v.push((format!("body byte 0 = {:#04x}", x), b));
        }
    }
    // index / sub-index (or fragments-left for SDO info): boundaries
    if reply.len() > 11 {
        for idx in [0u16, 1, 0x1fff, 0x2000, 0x2001, 0xffff] {
            for sub in [0u8, 1, 2, 0xff] {
                let mut b = reply.to_vec();
                b[9..11].copy_from_slice(&idx.to_le_bytes());
                b[11] = sub;
                v.push((format!("index {:#06x} sub {}", idx, sub), b));
            }
        }
        let frs: Vec<u16> = if thorough { (0..=0xffffu32).step_by(257).map(|x| x as u16).collect() } else { vec![0, 1, 2, 0xff, 0x100, 0xffff] };
        for fr in frs {
            let mut b = reply.to_vec();
            b[10..12].copy_from_slice(&fr.to_le_bytes());
            v.push((format!("bytes 10..12 = {:#06x}", fr), b));
        }
    }
    // complete size (normal upload): boundaries
    if reply.len() >= 16 {
        for cs in [0u32, 1, 3, 4, 5, 15, 16, 17, 23, 24, 25, 0xffff, 0x10000, 0x7fff_ffff, 0xffff_ffff] {
            let mut b = reply.to_vec();
            b[12..16].copy_from_slice(&cs.to_le_bytes());
            v.push((format!("complete size {:#x}", cs), b));
        }
    }
    v
}

#[derive(Clone, Debug)]
struct Script {
    what: String,
    replies: Vec<Vec<u8>>,
    repeat_last: bool,
    refill: Option<Vec<u8>>,
    mbx: usize,
}

fn run_script(acc: &mut Acc, e: Entry, sc: &Script) {
    let replies = sc.replies.clone();
    let repeat = sc.repeat_last;
    let refill = sc.refill.clone();
    // the request mailbox is always large enough for the request; the reply mailbox varies
    let (mut net, group) = match bring_up2(sc.mbx.max(16), sc.mbx, move |c| {
        c.scripted = replies;
        c.repeat_last_scripted = repeat;
        c.refill_after_taken = refill;
    }) {
        Ok(x) => x,
        Err(err) => {
            acc.v("setup-failed", err);
            return;
        }
    };
    // 2 x (largest SDO-info list 0x1fffe bytes / 1 byte per fragment) x 4 frames per fragment
    net.budget.frames = 1_100_000;
    net.budget.polls = 3_000_000;
    net.budget.virtual_us = 40_000_000;
    let md = net.md();
    let gref = &group;
    acc.n += 1;
    acc.nt += 1;
    let r: Result<Result<Vec<u8>, Error>, Stop> = net.run(async move {
        let sd = gref.subdevice(md, 0)?;
        match e {
            Entry::ReadU32 => sd.sdo_read::<u32>(0x2000, 1).await.map(|v| v.to_le_bytes().to_vec()),
            Entry::ReadArr16 => sd.sdo_read::<[u8; 16]>(0x2000, 1).await.map(|v| v.to_vec()),
            Entry::ReadArr24Segmented => sd.sdo_read::<[u8; 24]>(0x2000, 1).await.map(|v| v.to_vec()),
            Entry::Write => sd.sdo_write(0x2000, 1, 0x01020304u32).await.map(|_| Vec::new()),
            Entry::InfoList => sd
                .sdo_info_object_description_list(ObjectDescriptionListQuery::All)
                .await
                .map(|v| v.map(|l| l.iter().flat_map(|x| x.to_le_bytes()).collect()).unwrap_or_default()),
            Entry::InfoQuantities => sd.sdo_info_object_quantities().await.map(|v| {
                v.map(|q| {
                    let mut b = Vec::new();
                    for x in [q.all, q.rx_pdo_mappable, q.tx_pdo_mappable, q.stored_for_device_replacement, q.startup_parameters] {
                        b.extend_from_slice(&x.to_le_bytes());
                    }
                    b
                })
                .unwrap_or_default()
            }),
        }
    });
    let ctx = format!("{:?}: {} (mailbox {})", e, sc.what, sc.mbx);
    match r {
        Ok(Ok(val)) => {
            *acc.outcomes.entry(format!("{:?} value", e)).or_insert(0) += 1;
            // every byte of a returned value must be a byte the device placed in the mailbox
            // window (replies are tagged, the rest of the window is 0xEE)
            let mut allowed = [false; 256];
            allowed[0xee] = true;
            for rp in sc.replies.iter().chain(sc.refill.iter()) {
                for b in rp {
                    allowed[*b as usize] = true;
                }
            }
            if let Some(b) = val.iter().find(|b| !allowed[**b as usize]) {
                acc.v(
                    &format!("value-contains-bytes-from-outside-the-response entry={:?}", e),
                    format!("returned value {:02x?} contains {:#04x}, which the device never placed in its mailbox [{}]", val, b, ctx),
                );
            }
            if val.len() > 0x1fffe {
                acc.v("accumulated-more-than-buffer", format!("{} bytes returned [{}]", val.len(), ctx));
            }
        }
        Ok(Err(err)) => {
            *acc.outcomes.entry(format!("{:?} error {}", e, format!("{:?}", err).chars().take(18).collect::<String>())).or_insert(0) += 1;
        }
        Err(Stop::Panic(p)) => {
            let mut site = String::new();
            for c in p.chars() {
                if c.is_ascii_digit() {
                    if !site.ends_with('#') {
                        site.push('#');
                    }
                } else {
                    site.push(c);
                }
            }
            let site: String = site.chars().take(56).collect();
            acc.v(&format!("panic entry={:?} {}", e, site), format!("panicked: {} [{}]", p, ctx));
        }
        Err(s) => acc.v(
            &format!("no-termination entry={:?} {}", e, match s { Stop::Deadlock => "deadlock", _ => "budget" }),
            format!("did not end with a value or an error: {:?} [{}]", s, ctx),
        ),
    }
}

pub fn enumerate(thorough: bool) -> Acc {
    let mut acc = Acc::new();
    let mailboxes: &[usize] = if thorough { &[6, 7, 8, 9, 10, 12, 13, 14, 16, 24, 64, 128, 1024] } else { &[6, 8, 12, 13, 16, 64] };
    for e in ENTRIES {
        let valid = valid_replies(e);
        for &m in mailboxes {
            if valid.iter().any(|r| r.len() > m) && m < 32 {
                // the valid exchange does not fit this mailbox; still run truncations below
            }
            for step in 0..valid.len() {
                for (what, bytes) in perturb(&valid[step], thorough && m == 64) {
                    if !thorough && m != 64 && !(what.starts_with("truncated") || what.starts_with("mailbox length")) {
                        continue;
                    }
                    let mut replies: Vec<Vec<u8>> = valid[..step].to_vec();
                    replies.push(bytes);
                    // afterwards the device keeps answering with the valid continuation
                    replies.extend(valid[step + 1..].iter().cloned());
                    run_script(&mut acc, e, &Script { what: format!("step {} {}", step, what), replies, repeat_last: false, refill: None, mbx: m });
                }
            }
        }
    }
    // endless behaviours
    {
        // endless 'more fragments' with data, with zero payload, and endless foreign op-codes
        let frag = |opcode: u8, payload: usize, incomplete: bool| {
            let mut v = mbx(6 + payload, 1, 3);
            v.extend_from_slice(&0x8000u16.to_le_bytes());
            v.push(opcode | if incomplete { 0x80 } else { 0 });
            v.push(0);
            v.extend_from_slice(&1u16.to_le_bytes());
            v.extend(std::iter::repeat(0x51).take(payload));
            v
        };
        for (what, f) in [
            ("endless 'more fragments' with 40 bytes each", frag(0x02, 40, true)),
            ("endless 'more fragments' with 2 bytes each", frag(0x02, 2, true)),
            ("endless 'more fragments' with no payload", frag(0x02, 0, true)),
            ("endless foreign op-code 0x04", frag(0x04, 8, false)),
            ("endless error op-code 0x07", frag(0x07, 4, false)),
        ] {
            for e in [Entry::InfoList, Entry::InfoQuantities] {
                run_script(&mut acc, e, &Script { what: what.to_string(), replies: vec![f.clone()], repeat_last: true, refill: Some(f.clone()), mbx: 64 });
            }
        }
        // endless segments: zero-length, one byte, full, never last; toggle never flips
        let seg = |n: usize, unused: u8| {
            let mut s = mbx(3 + n, 2, 3);
            s.extend_from_slice(&0x3000u16.to_le_bytes());
            s.push(unused << 1);
            s.extend(std::iter::repeat(0x52).take(n));
            s
        };
        let init = valid_replies(Entry::ReadArr24Segmented)[0].clone();
        for (what, s) in [
            ("endless zero-length segments (7 unused)", seg(7, 7)),
            ("endless one-byte segments", seg(7, 6)),
            ("endless full segments", seg(7, 0)),
            ("endless segments with mailbox length 3", seg(0, 0)),
            ("endless 40-byte segments", seg(40, 0)),
        ] {
            run_script(&mut acc, Entry::ReadArr24Segmented, &Script { what: what.to_string(), replies: vec![init.clone(), s], repeat_last: true, refill: None, mbx: 64 });
        }
        // two coordinated fields of a segment: every data length 0..=8 x every value of the 3-bit
        // 'unused bytes' field, as a last segment and as a non-last one
        for n in 0..=8usize {
            for unused in 0..=7u8 {
                for last in [true, false] {
                    let mut s = seg(n, unused);
                    if last {
                        let k = s.len() - n - 1;
                        s[k] |= 0x01;
                    }
                    run_script(
                        &mut acc,
                        Entry::ReadArr24Segmented,
                        &Script { what: format!("segment with {} data bytes and unused-bytes field {}", n, unused), replies: vec![init.clone(), s], repeat_last: true, refill: None, mbx: 64 },
                    );
                }
            }
        }
    }
    acc
}

pub fn c16(tier: &Tier, child: bool) -> Result<i32, String> {
    let acc = enumerate(tier.thorough);
    if child {
        let out = json!({"evaluations": acc.n, "nontrivial": acc.nt, "outcomes": acc.outcomes, "violations": acc.viol});
        println!("CHILD-RESULT {}", out);
        return Ok(0);
    }
    let mut rep = Report::new("C16", "exploration", tier);
    rep.rule = "for each SDO / SDO-info entry point (expedited, normal and segmented upload, expedited download, object description list, object quantities) and each step of its exchange, the device's reply is a valid reply with one perturbation: every truncation length; mailbox length field 0..=64 and boundaries (all 65536 values in the thorough tier); every value of the type/counter byte; all 16 CoE services; every value of the first body byte (command/size/flags or op-code/incomplete); index/sub-index and fragments-left boundaries; complete-size boundaries; mailbox sizes 16 and 64 (16..1024 thorough); plus endless 'more fragments', endless zero-length / short / oversize segments, every segment data length 0..=8 x every 'unused bytes' value, and endless foreign op-codes; executed with and without overflow checks; non-trivial = every scripted reply".into();
    rep.assumptions = vec![
        "'whatever bytes' is decided for single-field perturbations of well-formed replies and the listed endless scripts, not for all byte strings".into(),
        "out-of-bounds reads are observed indirectly: every byte of a returned value must occur in what the device placed in the mailbox window (tagged replies, 0xEE elsewhere)".into(),
        "horizon per request: 1.1 million frames (2 x the largest possible SDO-info list delivered one byte per fragment); exceeding it is reported as non-termination".into(),
    ];
    rep.evaluations = acc.n;
    rep.nontrivial = acc.nt;
    rep.outcomes = acc.outcomes.clone();
    let mut viol: Vec<(String, String)> = acc.viol.iter().map(|(s, m)| (format!("flavour=checked {}", s), m.clone())).collect();
    let mut flavours = vec![json!({"flavour": "checked", "evaluations": acc.n})];
    match crate::checks::run_child_flavour("C16", tier) {
        Ok(v) => {
            rep.evaluations += v["evaluations"].as_u64().unwrap_or(0);
            rep.nontrivial += v["nontrivial"].as_u64().unwrap_or(0);
            flavours.push(json!({"flavour": "fast", "evaluations": v["evaluations"]}));
            if let Some(arr) = v["violations"].as_array() {
                for x in arr {
                    viol.push((format!("flavour=fast {}", x[0].as_str().unwrap_or("")), x[1].as_str().unwrap_or("").to_string()));
                }
            }
        }
        Err(e) => return Err(format!("fast-flavour child failed: {}", e)),
    }
    for (s, m) in viol {
        rep.violation(&s, &m, json!({"engine": "c16", "detail": m}));
    }
    rep.states = rep.evaluations;
    rep.transitions = rep.evaluations;
    rep.extra.insert("flavours".into(), json!(flavours));
    rep.samples.push(json!("ReadArr24Segmented: step 1 mailbox length 2 (mailbox 64)"));
    rep.samples.push(json!("InfoList: endless 'more fragments' with no payload"));
    Ok(rep.finish())
}
