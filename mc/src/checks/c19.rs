//! C19: derived wire encodings match their declared layout and round-trip.
//!
//! Program domain: every struct/enum definition of the layout grammar in
//! /verif/tools/gen_wire_types.py (crates mc/wiregen/*), compiled with the derive macros of the
//! working tree. Per type, value domain: products of per-field boundary alphabets; buffer domain:
//! every buffer of the packed length over the same alphabets plus walking bits, every buffer for
//! types of at most two bytes, short and over-long buffers. Oracle: the generated reference
//! (`build`, `canon`), which places fields by bit positions computed from the declaration alone.

use crate::report::{Report, Tier};
use ethercrab_wire::WireError;
use serde_json::json;
use std::collections::BTreeMap;
use std::panic::{catch_unwind, AssertUnwindSafe};
use vx_wiregen::Ops;

fn le_bytes(w: u128, len: usize) -> Vec<u8> {
    (0..len).map(|k| if k < 16 { (w >> (8 * k)) as u8 } else { 0 }).collect()
}

fn from_le(b: &[u8]) -> u128 {
    b.iter().take(16).enumerate().fold(0u128, |a, (k, x)| a | (u128::from(*x) << (8 * k)))
}

fn width_mask(bits: u32) -> u128 {
    if bits >= 128 {
        u128::MAX
    } else {
        (1u128 << bits) - 1
    }
}

/// Bit patterns to try for one type: products of the per-field alphabets (complete when small,
/// otherwise all pairs over a zero background plus one-field-at-a-time over three backgrounds).
fn patterns(op: &Ops, cap: usize) -> (Vec<u128>, bool) {
    let fields = op.fields;
    let total: u128 = fields.iter().map(|f| f.2.len() as u128).product();
    let mut out: Vec<u128> = Vec::new();
    let place = |f: &(u32, u32, &[u128]), v: u128| -> u128 { (v & width_mask(f.1)) << f.0 };
    if total <= cap as u128 {
        let mut idx = vec![0usize; fields.len()];
        loop {
            let mut w = 0u128;
            for (k, f) in fields.iter().enumerate() {
                w |= place(f, f.2[idx[k]]);
            }
            out.push(w);
            let mut k = 0;
            loop {
                if k == fields.len() {
                    return (dedup(out), true);
                }
                idx[k] += 1;
                if idx[k] < fields[k].2.len() {
                    break;
                }
                idx[k] = 0;
                k += 1;
            }
        }
    }
    let declared: u128 = fields.iter().fold(0u128, |a, f| a | (width_mask(f.1) << f.0));
    let alt = 0x5555_5555_5555_5555_5555_5555_5555_5555u128;
    for bg in [0u128, declared, declared & alt] {
        for f in fields {
            let hole = !(width_mask(f.1) << f.0);
            for v in f.2 {
                out.push((bg & hole) | place(f, *v));
            }
        }
    }
    for a in 0..fields.len() {
        for b in (a + 1)..fields.len() {
            for va in fields[a].2 {
                for vb in fields[b].2 {
                    out.push(place(&fields[a], *va) | place(&fields[b], *vb));
                }
            }
        }
    }
    (dedup(out), false)
}

fn dedup(mut v: Vec<u128>) -> Vec<u128> {
    v.sort_unstable();
    v.dedup();
    v
}

struct Found {
    sig: String,
    msg: String,
}

struct TypeStats {
    values: u64,
    buffers: u64,
    undefined: u64,
    complete_product: bool,
}

fn guarded<T>(f: impl FnOnce() -> T) -> Result<T, String> {
    catch_unwind(AssertUnwindSafe(f)).map_err(|p| crate::e1::panic_msg(&p))
}

fn check_type(op: &Ops, thorough: bool) -> (TypeStats, Vec<Found>) {
    let mut found: Vec<Found> = Vec::new();
    let mut add = |clause: &str, msg: String| {
        let sig = format!("{} [{}]", clause, op.tag);
        if !found.iter().any(|f| f.sig == sig) {
            found.push(Found { sig, msg: format!("{} — type {}: {}", msg, op.name, op.decl) });
        }
    };
    let len = op.bits.div_ceil(8) as usize;
    let wm = width_mask(op.bits);
    let mut st = TypeStats { values: 0, buffers: 0, undefined: 0, complete_product: false };
    if op.packed_len != len {
        add("packed-len-wrong", format!("PACKED_LEN is {} for a declared width of {} bits", op.packed_len, op.bits));
        return (st, found);
    }
    let (mut pats, complete) = patterns(op, if thorough { 200_000 } else { 20_000 });
    st.complete_product = complete;
    // buffers: the patterns with the undeclared bits zero, all ones and alternating, walking bits,
    // and every buffer for types of at most two bytes
    let mut bufs: Vec<u128> = Vec::new();
    let byte_mask = width_mask((len * 8) as u32);
    let declared: u128 = op.fields.iter().fold(0u128, |a, f| a | (width_mask(f.1) << f.0));
    let undeclared = byte_mask & !declared;
    for p in &pats {
        bufs.push(*p);
        if undeclared != 0 {
            bufs.push(*p | undeclared);
            bufs.push(*p | (undeclared & 0xAAAA_AAAA_AAAA_AAAA_AAAA_AAAA_AAAA_AAAAu128));
        }
    }
    for k in 0..(len * 8) {
        bufs.push(1u128 << k);
        bufs.push(byte_mask & !(1u128 << k));
    }
    if len <= 2 {
        for w in 0..(1u128 << (8 * len)) {
            bufs.push(w);
        }
        // and every declared bit pattern as a value
        for w in 0..(1u128 << (8 * len)) {
            pats.push(w & declared);
        }
        pats = dedup(pats);
    }
    let bufs = dedup(bufs);

    // --- decode clause: any buffer of the packed length, and the same buffer followed by junk
    for b in &bufs {
        st.buffers += 1;
        let bytes = le_bytes(*b, len);
        let want = (op.build_dbg)(*b & wm);
        let got = guarded(|| (op.unpack_dbg)(&bytes));
        match (&want, &got) {
            (_, Err(p)) => add("decode-panics", format!("unpack_from_slice({:02x?}) panicked: {}", bytes, p)),
            (Some(w), Ok(Ok(g))) => {
                if w != g {
                    add("decode-wrong", format!("unpack_from_slice({:02x?}) = {}, the declared layout gives {}", bytes, g, w));
                }
            }
            (Some(w), Ok(Err(e))) => add("decode-fails", format!("unpack_from_slice({:02x?}) = Err({:?}), the declared layout gives {}", bytes, e, w)),
            (None, Ok(Ok(g))) => add("undefined-enum-value-accepted", format!("unpack_from_slice({:02x?}) = {} although an enum field holds an undefined value", bytes, g)),
            (None, Ok(Err(e))) => {
                st.undefined += 1;
                if *e != WireError::InvalidValue {
                    add("undefined-enum-value-wrong-error", format!("unpack_from_slice({:02x?}) = Err({:?}), expected InvalidValue", bytes, e));
                }
            }
        }
        // longer buffer: the tail is ignored
        if st.buffers % 7 == 0 {
            let mut longer = bytes.clone();
            longer.extend_from_slice(&[0xa5, 0x5a, 0xff]);
            let got2 = guarded(|| (op.unpack_dbg)(&longer));
            if got2 != got {
                add("decode-depends-on-trailing-bytes", format!("unpack_from_slice of {:02x?} + 3 trailing bytes = {:?}, without them {:?}", bytes, got2, got));
            }
        }
    }
    // --- short buffers
    for short in 0..len {
        for fill in [0x00u8, 0xff] {
            let bytes = vec![fill; short];
            match guarded(|| (op.unpack_dbg)(&bytes)) {
                Err(p) => add("short-buffer-decode-panics", format!("unpack_from_slice of {} byte(s) (needs {}) panicked: {}", short, len, p)),
                Ok(Ok(g)) => add("short-buffer-decoded", format!("unpack_from_slice of {} byte(s) (needs {}) = {}", short, len, g)),
                Ok(Err(WireError::ReadBufferTooShort)) => {}
                Ok(Err(e)) => add("short-buffer-wrong-error", format!("unpack_from_slice of {} byte(s) (needs {}) = Err({:?})", short, len, e)),
            }
        }
    }

    // --- encode / round-trip clauses over values
    for w in &pats {
        let w = *w & wm;
        let Some(canon) = (op.canon)(w) else { continue };
        st.values += 1;
        let want = le_bytes(canon, len);
        match guarded(|| (op.pack)(w)) {
            Err(p) => {
                add("pack-panics", format!("pack() of {} panicked: {}", (op.build_dbg)(w).unwrap_or_default(), p));
                continue;
            }
            Ok(None) => continue,
            Ok(Some(got)) => {
                if got != want {
                    add("encode-wrong", format!("pack() of {} = {:02x?}, the declared layout gives {:02x?}", (op.build_dbg)(w).unwrap_or_default(), got, want));
                }
            }
        }
        match guarded(|| (op.roundtrip)(w)) {
            Err(p) => add("roundtrip-panics", format!("unpack(pack(v)) panicked for {}: {}", (op.build_dbg)(w).unwrap_or_default(), p)),
            Ok(Some(Ok(true))) | Ok(None) => {}
            Ok(Some(Ok(false))) => {
                // a value that is not what decoding produces (e.g. catch-all holding a defined number) is not required to survive
                if canon == w {
                    add("roundtrip-differs", format!("unpack(pack(v)) != v for {}", (op.build_dbg)(w).unwrap_or_default()));
                }
            }
            Ok(Some(Err(e))) => add("roundtrip-fails", format!("unpack(pack(v)) = Err({:?}) for {}", e, (op.build_dbg)(w).unwrap_or_default())),
        }
        if (op.packed_len_dyn)(w) != Some(len) {
            add("packed-len-wrong", format!("packed_len() = {:?}, declared {} bytes", (op.packed_len_dyn)(w), len));
        }
        // checked pack: exact, over-long dirty, and every short destination
        if st.values % 5 == 1 {
            let mut dirty = vec![0xa5u8; len + 3];
            match guarded(|| (op.pack_to_slice)(w, &mut dirty)) {
                Err(p) => add("pack-to-slice-panics", format!("pack_to_slice into {} bytes panicked: {}", len + 3, p)),
                Ok(Some(Ok(n))) => {
                    if n != len || dirty[..len] != want[..] || dirty[len..] != [0xa5, 0xa5, 0xa5] {
                        add("pack-to-slice-wrong", format!("pack_to_slice into a dirty buffer wrote {:02x?} (returned {} bytes), expected {:02x?} followed by the untouched a5 a5 a5", dirty, n, want));
                    }
                }
                Ok(Some(Err(e))) => add("pack-to-slice-fails", format!("pack_to_slice into {} bytes = Err({:?})", len + 3, e)),
                Ok(None) => {}
            }
            for short in 0..len {
                let mut dst = vec![0x11u8; short];
                match guarded(|| (op.pack_to_slice)(w, &mut dst)) {
                    Err(p) => add("short-destination-panics", format!("pack_to_slice into {} byte(s) (needs {}) panicked: {}", short, len, p)),
                    Ok(Some(Ok(n))) => add("short-destination-accepted", format!("pack_to_slice into {} byte(s) (needs {}) = Ok({})", short, len, n)),
                    Ok(Some(Err(WireError::WriteBufferTooShort))) => {
                        if dst.iter().any(|x| *x != 0x11) {
                            add("short-destination-written", format!("pack_to_slice refused {} byte(s) but wrote {:02x?}", short, dst));
                        }
                    }
                    Ok(Some(Err(e))) => add("short-destination-wrong-error", format!("pack_to_slice into {} byte(s) = Err({:?})", short, e)),
                    Ok(None) => {}
                }
            }
        }
    }
    (st, found)
}

/// The in-crate wire types reachable through ethercrab's public API, against layouts transcribed by
/// hand from the ETG tables their documentation cites. Returns (buffers evaluated, findings).
fn in_crate_types() -> (u64, Vec<Found>) {
    use ethercrab::{AlStatusCode, EtherCrabWireRead, EtherCrabWireWrite, ObjectDescriptionListQuery, ObjectDescriptionListQueryCounts, SubDeviceIdentity, SubDeviceState};
    let mut found: Vec<Found> = Vec::new();
    let mut n = 0u64;
    let mut add = |clause: &str, ty: &str, msg: String| {
        let sig = format!("{} [in-crate {}]", clause, ty);
        if !found.iter().any(|f| f.sig == sig) {
            found.push(Found { sig, msg });
        }
    };
    // SubDeviceState: ETG1000.6 table 9, one byte, unknown values kept
    for b in 0..=255u8 {
        n += 1;
        let want = match b {
            0 => SubDeviceState::None,
            1 => SubDeviceState::Init,
            2 => SubDeviceState::PreOp,
            3 => SubDeviceState::Bootstrap,
            4 => SubDeviceState::SafeOp,
            8 => SubDeviceState::Op,
            o => SubDeviceState::Other(o),
        };
        match guarded(|| SubDeviceState::unpack_from_slice(&[b, 0xee])) {
            Ok(Ok(v)) if v == want => {
                let mut out = [0xa5u8; 2];
                match guarded(|| v.pack_to_slice(&mut out).map(|s| s.to_vec())) {
                    Ok(Ok(p)) if p == [b] && out[1] == 0xa5 => {}
                    o => add("encode-wrong", "SubDeviceState", format!("{:?} packs as {:?} (buffer {:02x?}), expected [{:02x}]", v, o, out, b)),
                }
            }
            o => add("decode-wrong", "SubDeviceState", format!("byte {:#04x} decodes as {:?}, expected {:?}", b, o, want)),
        }
    }
    if !matches!(guarded(|| SubDeviceState::unpack_from_slice(&[])), Ok(Err(WireError::ReadBufferTooShort))) {
        add("short-buffer-wrong-error", "SubDeviceState", "empty buffer is not ReadBufferTooShort".into());
    }
    // AlStatusCode: ETG1000.6 table 11, u16 little endian, unknown values kept; every 16 bit value
    let spot: &[(u16, AlStatusCode)] = &[
        (0x0000, AlStatusCode::NoError),
        (0x0001, AlStatusCode::UnspecifiedError),
        (0x0011, AlStatusCode::InvalidRequestedStateChange),
        (0x0012, AlStatusCode::UnknownRequestedState),
        (0x0013, AlStatusCode::BootstrapNotSupported),
        (0x0016, AlStatusCode::InvalidMailboxConfiguration2),
        (0x0017, AlStatusCode::InvalidSyncManagerConfiguration),
        (0x0018, AlStatusCode::NoValidInputsAvailable),
        (0x0019, AlStatusCode::NoValidOutputs),
        (0x0020, AlStatusCode::SubDeviceNeedsColdStart),
        (0x0021, AlStatusCode::SubDeviceNeedsInit),
        (0x0022, AlStatusCode::SubDeviceNeedsPreop),
        (0x7fff, AlStatusCode::Unknown(0x7fff)),
        (0xffff, AlStatusCode::Unknown(0xffff)),
    ];
    let mut decoded: BTreeMap<String, u16> = BTreeMap::new();
    for v in 0..=u16::MAX {
        n += 1;
        match guarded(|| AlStatusCode::unpack_from_slice(&v.to_le_bytes())) {
            Ok(Ok(code)) => {
                if let Some((_, want)) = spot.iter().find(|(k, _)| *k == v) {
                    if code != *want {
                        add("decode-wrong", "AlStatusCode", format!("{:#06x} decodes as {:?}, expected {:?}", v, code, want));
                    }
                }
                // two different numbers must never decode to the same named code
                if !matches!(code, AlStatusCode::Unknown(_)) {
                    if let Some(prev) = decoded.insert(format!("{:?}", code), v) {
                        add("decode-wrong", "AlStatusCode", format!("{:#06x} and {:#06x} both decode as {:?}", prev, v, code));
                    }
                } else if code != AlStatusCode::Unknown(v) {
                    add("decode-wrong", "AlStatusCode", format!("{:#06x} decodes as {:?}", v, code));
                }
            }
            o => add("decode-fails", "AlStatusCode", format!("{:#06x} decodes as {:?}", v, o)),
        }
    }
    if !matches!(guarded(|| AlStatusCode::unpack_from_slice(&[0x11])), Ok(Err(WireError::ReadBufferTooShort))) {
        add("short-buffer-wrong-error", "AlStatusCode", "1 byte buffer is not ReadBufferTooShort".into());
    }
    // SubDeviceIdentity: four u32 little endian at bytes 0, 4, 8, 12 (ETG1000.6 SII identity)
    let mut bufs: Vec<[u8; 16]> = vec![[0u8; 16], [0xff; 16], core::array::from_fn(|i| 0x10 + i as u8)];
    for bit in 0..128 {
        let mut b = [0u8; 16];
        b[bit / 8] = 1 << (bit % 8);
        bufs.push(b);
    }
    for b in &bufs {
        n += 1;
        let w = |k: usize| u32::from_le_bytes([b[k], b[k + 1], b[k + 2], b[k + 3]]);
        match guarded(|| SubDeviceIdentity::unpack_from_slice(b)) {
            Ok(Ok(id)) if id.vendor_id == w(0) && id.product_id == w(4) && id.revision == w(8) && id.serial == w(12) => {}
            o => add("decode-wrong", "SubDeviceIdentity", format!("{:02x?} decodes as {:?}", b, o)),
        }
    }
    for short in 0..16 {
        if !matches!(guarded(|| SubDeviceIdentity::unpack_from_slice(&vec![0xffu8; short])), Ok(Err(WireError::ReadBufferTooShort))) {
            add("short-buffer-wrong-error", "SubDeviceIdentity", format!("{} byte buffer is not ReadBufferTooShort", short));
        }
    }
    // ObjectDescriptionListQuery: ETG1000.6 5.6.3.3.1 list types 1..=5 (0 = quantities is a different API)
    for b in 0..=255u8 {
        n += 1;
        let r = guarded(|| ObjectDescriptionListQuery::unpack_from_slice(&[b]).map(|q| (format!("{:?}", q), q.pack_to_slice(&mut [0u8; 1]).map(|s| s.to_vec()))));
        let names = ["All", "RxPdoMappable", "TxPdoMappable", "StoredForDeviceReplacement", "StartupParameters"];
        match (b, r) {
            (1..=5, Ok(Ok((name, Ok(p))))) if name == names[usize::from(b) - 1] && p == [b] => {}
            (1..=5, o) => add("decode-wrong", "ObjectDescriptionListQuery", format!("{} decodes/packs as {:?}", b, o)),
            (_, Ok(Err(WireError::InvalidValue))) => {}
            (_, o) => add("undefined-enum-value-accepted", "ObjectDescriptionListQuery", format!("{} decodes as {:?}", b, o)),
        }
    }
    // ObjectDescriptionListQueryCounts: five u16 little endian
    let mut bufs: Vec<[u8; 10]> = vec![[0u8; 10], [0xff; 10], core::array::from_fn(|i| 0x21 + i as u8)];
    for bit in 0..80 {
        let mut b = [0u8; 10];
        b[bit / 8] = 1 << (bit % 8);
        bufs.push(b);
    }
    for b in &bufs {
        n += 1;
        let w = |k: usize| u16::from_le_bytes([b[k], b[k + 1]]);
        match guarded(|| ObjectDescriptionListQueryCounts::unpack_from_slice(b)) {
            Ok(Ok(c)) if c.all == w(0) && c.rx_pdo_mappable == w(2) && c.tx_pdo_mappable == w(4) && c.stored_for_device_replacement == w(6) && c.startup_parameters == w(8) => {}
            o => add("decode-wrong", "ObjectDescriptionListQueryCounts", format!("{:02x?} decodes as {:?}", b, o)),
        }
    }
    for short in 0..10 {
        if !matches!(guarded(|| ObjectDescriptionListQueryCounts::unpack_from_slice(&vec![0u8; short])), Ok(Err(WireError::ReadBufferTooShort))) {
            add("short-buffer-wrong-error", "ObjectDescriptionListQueryCounts", format!("{} byte buffer is not ReadBufferTooShort", short));
        }
    }
    (n, found)
}

/// The hand-written implementations in ethercrab-wire/src/impls.rs: primitives, bool, tuples,
/// arrays, byte slices, heapless containers. Returns (cases evaluated, findings).
fn builtin_impls() -> (u64, Vec<Found>) {
    use ethercrab_wire::{EtherCrabWireRead, EtherCrabWireSized, EtherCrabWireWrite, EtherCrabWireWriteSized};
    let mut found: Vec<Found> = Vec::new();
    let mut n = 0u64;
    let mut add = |clause: &str, ty: &str, msg: String| {
        let sig = format!("{} [builtin {}]", clause, ty);
        if !found.iter().any(|f| f.sig == sig) {
            found.push(Found { sig, msg });
        }
    };
    macro_rules! prim {
        ($t:ty, $name:expr, $vals:expr) => {{
            const W: usize = core::mem::size_of::<$t>();
            for v in $vals {
                n += 1;
                let v: $t = v;
                let want = v.to_le_bytes();
                let r = guarded(|| {
                    let packed = v.pack();
                    let mut dirty = [0xa5u8; W + 2];
                    let wrote = v.pack_to_slice(&mut dirty).map(|s| s.to_vec());
                    let mut longer = want.to_vec();
                    longer.extend_from_slice(&[0xee, 0xdd]);
                    let back = <$t>::unpack_from_slice(&longer);
                    let shorts: Vec<bool> = (0..W).map(|l| <$t>::unpack_from_slice(&longer[..l]) == Err(WireError::ReadBufferTooShort) && v.pack_to_slice(&mut vec![0u8; l]).is_err()).collect();
                    (packed.as_ref().to_vec(), wrote, dirty, back, shorts, v.packed_len(), <$t as EtherCrabWireSized>::PACKED_LEN, <$t as EtherCrabWireSized>::buffer().as_ref().len())
                });
                match r {
                    Err(p) => add("panic", $name, format!("{:?}: {}", v, p)),
                    Ok((packed, wrote, dirty, back, shorts, plen, clen, blen)) => {
                        if packed != want || wrote != Ok(want.to_vec()) || dirty[W..] != [0xa5, 0xa5] || plen != W || clen != W || blen != W {
                            add("encode-wrong", $name, format!("{:?} packs as {:02x?} / {:?} (buffer {:02x?}, lengths {} {} {}), expected {:02x?}", v, packed, wrote, dirty, plen, clen, blen, want));
                        }
                        if back != Ok(v) {
                            add("decode-wrong", $name, format!("{:02x?} decodes as {:?}, expected {:?}", want, back, v));
                        }
                        if shorts.iter().any(|ok| !ok) {
                            add("short-buffer-wrong-error", $name, format!("{:?}: short source/destination handling {:?}", v, shorts));
                        }
                    }
                }
            }
        }};
    }
    prim!(u8, "u8", (0..=255u8).collect::<Vec<_>>());
    prim!(i8, "i8", (i8::MIN..=i8::MAX).collect::<Vec<_>>());
    prim!(u16, "u16", (0..=u16::MAX).collect::<Vec<_>>());
    prim!(i16, "i16", (i16::MIN..=i16::MAX).collect::<Vec<_>>());
    prim!(u32, "u32", [0u32, 1, 0xff, 0x100, 0x0102_0304, 0x7fff_ffff, 0x8000_0000, u32::MAX].to_vec());
    prim!(i32, "i32", [0i32, 1, -1, i32::MIN, i32::MAX, 0x0102_0304].to_vec());
    prim!(u64, "u64", [0u64, 1, 0x0102_0304_0506_0708, 1 << 63, u64::MAX].to_vec());
    prim!(i64, "i64", [0i64, -1, i64::MIN, i64::MAX, 0x0102_0304_0506_0708].to_vec());
    // bool: ETG1000.6 5.2.2, 0xff / 0x00 on the wire, any non-zero byte reads as true
    for b in 0..=255u8 {
        n += 1;
        if guarded(|| bool::unpack_from_slice(&[b, 7])) != Ok(Ok(b != 0)) {
            add("decode-wrong", "bool", format!("byte {:#04x}", b));
        }
    }
    if guarded(|| (true.pack(), false.pack(), bool::unpack_from_slice(&[]))) != Ok(([0xff], [0x00], Err(WireError::ReadBufferTooShort))) {
        add("encode-wrong", "bool", "true/false do not pack as ff/00 or an empty buffer is accepted".into());
    }
    // tuples: members one after the other
    {
        n += 1;
        let t = (0xaabb_ccddu32, 0x99u8, 0x1234u16, -2i16);
        let want = [0xdd, 0xcc, 0xbb, 0xaa, 0x99, 0x34, 0x12, 0xfe, 0xff];
        let r = guarded(|| {
            let mut buf = [0xa5u8; 12];
            let wrote = t.pack_to_slice(&mut buf).map(|s| s.to_vec());
            let shorts: Vec<bool> = (0..want.len()).map(|l| t.pack_to_slice(&mut vec![0u8; l]) == Err(WireError::WriteBufferTooShort)).collect();
            let back = <(u32, u8, u16, i16)>::unpack_from_slice(&want);
            let back_short: Vec<bool> = (0..want.len()).map(|l| <(u32, u8, u16, i16)>::unpack_from_slice(&want[..l]).is_err()).collect();
            (wrote, buf, shorts, back, back_short, t.packed_len())
        });
        match r {
            Ok((wrote, buf, shorts, back, back_short, plen)) => {
                if wrote != Ok(want.to_vec()) || buf[9..] != [0xa5; 3] || plen != 9 {
                    add("encode-wrong", "tuple", format!("{:?} packs as {:?} (buffer {:02x?}, packed_len {})", t, wrote, buf, plen));
                }
                if back != Ok(t) {
                    add("decode-wrong", "tuple", format!("{:02x?} decodes as {:?}", want, back));
                }
                if shorts.iter().any(|x| !x) || back_short.iter().any(|x| !x) {
                    add("short-buffer-wrong-error", "tuple", format!("destination {:?} source {:?}", shorts, back_short));
                }
            }
            Err(p) => add("panic", "tuple", p),
        }
    }
    // arrays: [u8; N] both ways, [T; N] read
    {
        n += 1;
        let r = guarded(|| {
            let a = [1u8, 2, 3, 4, 5];
            let mut buf = [0xa5u8; 7];
            let wrote = a.pack_to_slice(&mut buf).map(|s| s.to_vec());
            let short = a.pack_to_slice(&mut [0u8; 4]).is_err();
            let back = <[u8; 5]>::unpack_from_slice(&[1, 2, 3, 4, 5, 6]);
            let words = <[u16; 3]>::unpack_from_slice(&[1, 0, 2, 0, 0xff, 0xff, 9]);
            let words_short: Vec<bool> = (0..6).map(|l| <[u16; 3]>::unpack_from_slice(&[1, 0, 2, 0, 3, 0][..l]) == Err(WireError::ReadBufferTooShort)).collect();
            let signed = <[i32; 2]>::unpack_from_slice(&[0xff, 0xff, 0xff, 0xff, 1, 0, 0, 0]);
            (wrote, buf, short, back, words, words_short, signed)
        });
        match r {
            Ok((wrote, buf, short, back, words, words_short, signed)) => {
                if wrote != Ok(vec![1, 2, 3, 4, 5]) || buf[5..] != [0xa5, 0xa5] || !short {
                    add("encode-wrong", "[u8; N]", format!("{:?} buffer {:02x?} short refused {}", wrote, buf, short));
                }
                if back != Ok([1, 2, 3, 4, 5]) || words != Ok([1, 2, 0xffff]) || signed != Ok([-1, 1]) {
                    add("decode-wrong", "[T; N]", format!("{:?} {:?} {:?}", back, words, signed));
                }
                if words_short.iter().any(|x| !x) {
                    add("short-buffer-wrong-error", "[T; N]", format!("{:?}", words_short));
                }
            }
            Err(p) => add("panic", "[T; N]", p),
        }
    }
    // byte slices and references
    {
        n += 1;
        let r = guarded(|| {
            let s: &[u8] = &[9, 8, 7];
            let mut buf = [0xa5u8; 5];
            let wrote = s.pack_to_slice(&mut buf).map(|x| x.to_vec());
            let short = s.pack_to_slice(&mut [0u8; 2]).is_err();
            let by_ref = (&0x1234u16).pack_to_slice(&mut [0u8; 2]).map(|x| x.to_vec());
            (wrote, buf, short, by_ref, s.packed_len())
        });
        if r != Ok((Ok(vec![9, 8, 7]), [9, 8, 7, 0xa5, 0xa5], true, Ok(vec![0x34, 0x12]), 3)) {
            add("encode-wrong", "&[u8] / &T", format!("{:?}", r));
        }
    }
    // heapless containers: every buffer length 0..=10
    for len in 0..=10usize {
        n += 1;
        let bytes: Vec<u8> = (0..len as u8).map(|i| 0x41 + i).collect();
        let r = guarded(|| (heapless::Vec::<u16, 4>::unpack_from_slice(&bytes), heapless::String::<8>::unpack_from_slice(&bytes), heapless::Vec::<u8, 4>::unpack_from_slice(&bytes)));
        match r {
            Ok((words, string, small)) => {
                let want_words: Vec<u16> = bytes.chunks_exact(2).take(4).map(|c| u16::from_le_bytes([c[0], c[1]])).collect();
                if words.as_ref().map(|v| v.to_vec()) != Ok(want_words.clone()) {
                    add("decode-wrong", "heapless::Vec<u16, 4>", format!("{} bytes decode as {:?}, expected {:?}", len, words, want_words));
                }
                let want_small: Vec<u8> = bytes.iter().copied().take(4).collect();
                if small.as_ref().map(|v| v.to_vec()) != Ok(want_small) {
                    add("decode-wrong", "heapless::Vec<u8, 4>", format!("{} bytes decode as {:?}", len, small));
                }
                let ok = if len <= 8 { string.as_ref().map(|s| s.as_bytes().to_vec()) == Ok(bytes.clone()) } else { string.is_err() };
                if !ok {
                    add("decode-wrong", "heapless::String<8>", format!("{} bytes decode as {:?}", len, string));
                }
            }
            Err(p) => add("panic", "heapless", p),
        }
    }
    n += 1;
    if !matches!(guarded(|| heapless::String::<8>::unpack_from_slice(&[0x41, 0xff, 0xfe])), Ok(Err(WireError::InvalidUtf8))) {
        add("decode-wrong", "heapless::String<8>", "invalid UTF-8 is not reported as InvalidUtf8".into());
    }
    (n, found)
}

pub fn c19(tier: &Tier) -> Result<i32, String> {
    let mut rep = Report::new("C19", "exploration", tier);
    rep.rule = "program domain: every struct/enum of the layout grammar of tools/gen_wire_types.py (all splits of a byte into <= 4 bit fields/gaps in both skip spellings, sub-byte enums and nested structs at every bit offset, all sequences of <= 2 of 17 whole-byte items and <= 3 of 8, 12-field structs, partial last byte, skip fields, repr(packed); enums over u8/u16/u32/i8/i16/i32 x 14 shapes: explicit, implicit, alternatives, default, catch-all and their combinations), compiled with the working tree's derive; value domain per type: product of per-field boundary alphabets (complete when <= cap, else all pairs + one-at-a-time over 3 backgrounds), every value of types <= 2 bytes; buffer domain: those patterns with undeclared bits 0/1/alternating, walking one/zero, every buffer of types <= 2 bytes, every shorter length, over-long with junk; oracle: generated reference construction by declared bit position; plus the five wire types reachable through ethercrab's public API (SubDeviceState, AlStatusCode: every value; SubDeviceIdentity, ObjectDescriptionListQuery, ObjectDescriptionListQueryCounts: every value / walking bits, short buffers) against layouts transcribed by hand from the ETG tables; plus the hand-written impls of ethercrab-wire (every u8/i8/u16/i16 value, boundary u32/i32/u64/i64 values, bool, a 4-tuple, [u8; N], [u16; N], [i32; N], byte slices, references, heapless Vec/String over every buffer length 0..=10): layout, checked pack into short and long destinations, short sources; non-trivial = every evaluation".into();
    rep.assumptions = vec![
        "the reference computes bit positions from the declared widths and skips alone (Python generator), values are built by plain field construction, never through the derive".into(),
        "struct width <= 128 bits; f32/f64, generics and heapless containers are outside the generated domain".into(),
        "implicit discriminants follow Rust's rule (first 0, then previous + 1)".into(),
    ];
    let cases = vx_wiregen::cases();
    let workers = crate::core::workers();
    let next = std::sync::atomic::AtomicUsize::new(0);
    let thorough = tier.thorough;
    type Out = (Vec<(usize, TypeStats)>, Vec<Found>);
    let outs: Vec<Out> = std::thread::scope(|s| {
        let hs: Vec<_> = (0..workers)
            .map(|_| {
                let cases = &cases;
                let next = &next;
                s.spawn(move || {
                    let mut stats = Vec::new();
                    let mut found: Vec<Found> = Vec::new();
                    loop {
                        let i = next.fetch_add(1, std::sync::atomic::Ordering::SeqCst);
                        if i >= cases.len() {
                            break;
                        }
                        let (st, f) = check_type(&cases[i], thorough);
                        stats.push((i, st));
                        for x in f {
                            if !found.iter().any(|y| y.sig == x.sig) {
                                found.push(x);
                            }
                        }
                    }
                    (stats, found)
                })
            })
            .collect();
        hs.into_iter().map(|h| h.join().expect("c19 worker")).collect()
    });
    let mut by_tag: BTreeMap<String, (u64, u64, u64)> = BTreeMap::new();
    let mut all_found: Vec<Found> = Vec::new();
    let (mut values, mut buffers, mut undefined, mut complete) = (0u64, 0u64, 0u64, 0u64);
    for (stats, found) in outs {
        for (i, st) in stats {
            let e = by_tag.entry(cases[i].tag.to_string()).or_insert((0, 0, 0));
            e.0 += 1;
            e.1 += st.values;
            e.2 += st.buffers;
            values += st.values;
            buffers += st.buffers;
            undefined += st.undefined;
            complete += u64::from(st.complete_product);
        }
        for f in found {
            if !all_found.iter().any(|y| y.sig == f.sig) {
                all_found.push(f);
            }
        }
    }
    let (in_crate_n, in_crate_found) = in_crate_types();
    buffers += in_crate_n;
    all_found.extend(in_crate_found);
    let (builtin_n, builtin_found) = builtin_impls();
    values += builtin_n;
    all_found.extend(builtin_found);
    all_found.sort_by(|a, b| a.sig.cmp(&b.sig));
    for f in &all_found {
        rep.violation(&f.sig, &f.msg, json!({"engine": "c19", "detail": f.msg}));
    }
    rep.evaluations = values + buffers;
    rep.nontrivial = values + buffers;
    rep.states = cases.len() as u64;
    rep.transitions = values + buffers;
    *rep.outcomes.entry("value packed as declared and round-trips".into()).or_insert(0) += values;
    *rep.outcomes.entry("buffer decoded as declared".into()).or_insert(0) += buffers - undefined;
    *rep.outcomes.entry("undefined enum value rejected".into()).or_insert(0) += undefined;
    rep.extra.insert("types".into(), json!(cases.len()));
    rep.extra.insert("builtin_impl_cases".into(), json!(builtin_n));
    rep.extra.insert("in_crate_types".into(), json!({"types": ["SubDeviceState", "AlStatusCode", "SubDeviceIdentity", "ObjectDescriptionListQuery", "ObjectDescriptionListQueryCounts"], "buffers": in_crate_n}));
    rep.extra.insert("types_with_complete_value_product".into(), json!(complete));
    rep.extra.insert(
        "by_feature".into(),
        json!(by_tag.iter().map(|(k, v)| json!({"feature": k, "types": v.0, "values": v.1, "buffers": v.2})).collect::<Vec<_>>()),
    );
    rep.samples.push(json!(cases[cases.len() / 2].decl));
    rep.samples.push(json!(cases[cases.len() - 5].decl));
    println!("  {} generated types ({} with complete value product), {} values, {} buffers, {} undefined-enum rejections", cases.len(), complete, values, buffers, undefined);
    Ok(rep.finish())
}
