//! C14: writing a station alias changes the alias and its checksum, nothing else.

use crate::eeprom::{crc8, simple_io};
use crate::memeeprom::{block_on_ready, MemEeprom};
use crate::net::{Net, Stop};
use crate::report::{Report, Tier};
use crate::sim::{Device, Segment};
use ethercrab::verif::VerifEeprom;
use serde_json::json;
use std::collections::BTreeMap;
use std::panic::{catch_unwind, AssertUnwindSafe};

fn header_images() -> Vec<(String, Vec<u8>)> {
    let mut v = Vec::new();
    let base = simple_io(0x1234, &[8], &[8]).image();
    v.push(("generated image".to_string(), base.clone()));
    v.push(("all zero header".to_string(), {
        let mut b = base.clone();
        b[..16].fill(0);
        b
    }));
    v.push(("all ones header".to_string(), {
        let mut b = base.clone();
        b[..16].fill(0xff);
        b
    }));
    for k in 0..4u8 {
        let mut b = base.clone();
        for i in 0..16 {
            b[i] = (i as u8).wrapping_mul(37).wrapping_add(k.wrapping_mul(91)) ^ (0x5a >> k);
        }
        v.push((format!("tagged header {}", k), b));
    }
    // a real dump's first words (Beckhoff EL2828: PDI control 0x0104, ...)
    let mut b = base.clone();
    b[..16].copy_from_slice(&[0x04, 0x01, 0x00, 0x00, 0x00, 0x00, 0xff, 0x00, 0x00, 0x00, 0x00, 0x00, 0x00, 0x00, 0xe2, 0x00]);
    v.push(("EL2828 header".to_string(), b));
    v
}

struct Acc {
    n: u64,
    nt: u64,
    outcomes: BTreeMap<String, u64>,
    viol: Vec<(String, String)>,
}

impl Acc {
    fn v(&mut self, sig: &str, msg: String) {
        if !self.viol.iter().any(|x| x.0 == sig) {
            self.viol.push((sig.to_string(), msg));
        }
    }
}

fn alias_in_memory(alias_lo: u32, alias_hi: u32) -> Acc {
    let mut acc = Acc { n: 0, nt: 0, outcomes: BTreeMap::new(), viol: Vec::new() };
    let imgs = header_images();
    for alias in alias_lo..alias_hi {
        let alias = alias as u16;
        for (k, (name, img)) in imgs.iter().enumerate() {
            let p = MemEeprom::new(img.clone(), if (alias as usize + k) % 2 == 0 { 8 } else { 4 }, 10_000);
            let e = VerifEeprom::new(p.clone());
            acc.n += 1;
            acc.nt += 1;
            let r = catch_unwind(AssertUnwindSafe(|| block_on_ready(e.set_station_alias(alias))));
            match r {
                Ok(Ok(Ok(()))) => {
                    let after = p.img.borrow().clone();
                    let mut want = img.clone();
                    want[8..10].copy_from_slice(&alias.to_le_bytes());
                    let c = crc8(&want[0..14]);
                    want[14] = c;
                    want[15] = 0;
                    if after != want {
                        let diff: Vec<usize> = (0..after.len().min(want.len())).filter(|i| after[*i] != want[*i]).map(|i| i / 2).collect();
                        let sig = if diff.iter().all(|w| *w == 7) {
                            "checksum-wrong"
                        } else if diff.iter().all(|w| *w == 4) {
                            "alias-word-wrong"
                        } else {
                            "other-words-changed"
                        };
                        acc.v(sig, format!("set_station_alias({:#06x}) on '{}': words {:?} differ; first 16 bytes now {:02x?}, expected {:02x?}", alias, name, diff, &after[..16], &want[..16]));
                    }
                    let words: Vec<u16> = p.writes.borrow().iter().map(|w| w.0).collect();
                    if words != vec![4, 7] {
                        acc.v("wrong-words-written", format!("set_station_alias({:#06x}) wrote words {:?}, expected exactly [4, 7]", alias, words));
                    }
                    // the alias read back
                    let e2 = VerifEeprom::new(p.clone());
                    match block_on_ready(e2.station_alias()) {
                        Ok(Ok(a)) if a == alias => {}
                        other => acc.v("alias-readback-wrong", format!("after set_station_alias({:#06x}) the stored alias reads {:?}", alias, other)),
                    }
                }
                Ok(Ok(Err(e))) => acc.v("alias-write-failed", format!("set_station_alias({:#06x}) on '{}' failed: {:?}", alias, name, e)),
                Ok(Err(m)) => acc.v("machinery", m),
                Err(p) => acc.v("panic set_station_alias", format!("set_station_alias({:#06x}) panicked: {}", alias, crate::e1::panic_msg(&p))),
            }
        }
    }
    acc
}

fn generic_writes(acc: &mut Acc) {
    let img: Vec<u8> = (0..256).map(|i| (i * 3 + 1) as u8).collect();
    let last = (img.len() / 2 - 1) as u16;
    for start in [0u16, 1, 7, 60, last - 1, last] {
        for len in 0..=64usize {
            for chunk in [4usize, 8] {
                let payload: Vec<u8> = (0..len).map(|i| 0x80 | ((i * 5 + 3) as u8 & 0x7f)).collect();
                let p = MemEeprom::new(img.clone(), chunk, 10_000);
                let e = VerifEeprom::new(p.clone());
                acc.n += 1;
                if len > 0 {
                    acc.nt += 1;
                }
                let r = catch_unwind(AssertUnwindSafe(|| block_on_ready(e.write_all(start, &payload))));
                let after = p.img.borrow().clone();
                // expected image: payload at the word address, odd tail padded with zero, only as
                // far as the image goes
                let mut want = img.clone();
                let mut padded = payload.clone();
                if padded.len() % 2 == 1 {
                    padded.push(0);
                }
                let room = img.len() - start as usize * 2;
                let fits = padded.len() <= room;
                match r {
                    Ok(Ok(Ok(()))) => {
                        let n = padded.len().min(room);
                        want[start as usize * 2..start as usize * 2 + n].copy_from_slice(&padded[..n]);
                        if after != want {
                            let diff: Vec<usize> = (0..after.len()).filter(|i| after[*i] != want[*i]).collect();
                            let beyond = diff.iter().any(|i| *i >= start as usize * 2 + padded.len() || *i < start as usize * 2);
                            acc.v(
                                if beyond { "write-outside-range" } else if len % 2 == 1 { "write-wrong-bytes parity=odd" } else { "write-wrong-bytes parity=even" },
                                format!("write of {} bytes at word {}: bytes {:?} differ from the expected image", len, start, diff),
                            );
                        }
                        let written: Vec<u16> = p.writes.borrow().iter().map(|w| w.0).collect();
                        let want_words: Vec<u16> = (0..(padded.len() / 2) as u16).map(|k| start + k).collect();
                        if fits && written != want_words {
                            acc.v("write-wrong-words", format!("write of {} bytes at word {} wrote words {:?}, expected {:?}", len, start, written, want_words));
                        }
                        *acc.outcomes.entry("generic write ok".into()).or_insert(0) += 1;
                    }
                    Ok(Ok(Err(e))) => {
                        // refusing a write that does not fit the device is fine; refusing one that fits is not
                        let _ = fits;
                        acc.v(
                            &format!("write-refused parity={}", if len % 2 == 1 { "odd" } else { "even" }),
                            format!("write of {} bytes at word {} failed: {:?}", len, start, e),
                        );
                    }
                    Ok(Err(m)) => acc.v("machinery", m),
                    Err(pn) => acc.v(
                        &format!("panic write parity={}", if len % 2 == 1 { "odd" } else { "even" }),
                        format!("write of {} bytes at word {} panicked: {}", len, start, crate::e1::panic_msg(&pn)),
                    ),
                }
            }
        }
    }
}

/// Ranges shorter than the payload: nothing may be written outside the range, however often the
/// caller keeps calling `write` (what `write_all` does).
fn short_ranges(acc: &mut Acc) {
    use embedded_io_async::Write;
    use ethercrab::verif::EepromRange;
    let img: Vec<u8> = (0..256).map(|i| (i * 3 + 1) as u8).collect();
    for start in [0u16, 5, 60, 126, 127, 0x7ffd, 0x7ffe, 0x7fff] {
        for range_words in 0..=4u16 {
            for payload_len in 0..=12usize {
                let payload: Vec<u8> = (0..payload_len).map(|i| 0xc0 | (i as u8)).collect();
                let p = MemEeprom::new(img.clone(), 8, 10_000);
                let mut range = EepromRange::new(p.clone(), start, range_words);
                acc.n += 1;
                acc.nt += 1;
                let r = catch_unwind(AssertUnwindSafe(|| {
                    let mut rest: &[u8] = &payload;
                    let mut calls = 0;
                    let mut total = 0usize;
                    // keep writing like write_all does, plus one more call on the exhausted range
                    loop {
                        calls += 1;
                        match block_on_ready(range.write(rest)) {
                            Ok(Ok(0)) => break,
                            Ok(Ok(n)) => {
                                total += n;
                                if n > rest.len() {
                                    return Err(format!("write reported {} bytes of a {} byte buffer", n, rest.len()));
                                }
                                rest = &rest[n..];
                            }
                            Ok(Err(_)) => break,
                            Err(m) => return Err(m),
                        }
                        if calls > 20 {
                            break;
                        }
                    }
                    let _ = block_on_ready(range.write(&[0xee, 0xee]));
                    Ok(total)
                }));
                match r {
                    Ok(Ok(total)) => {
                        let words: Vec<u16> = p.writes.borrow().iter().map(|w| w.0).collect();
                        let lo = u32::from(start);
                        let hi = (lo + u32::from(range_words)).min(0x8000);
                        if let Some(w) = words.iter().find(|w| u32::from(**w) < lo || u32::from(**w) >= hi) {
                            acc.v(
                                "write-outside-permitted-range",
                                format!("range of {} words at word {:#06x}, payload {} bytes: word {:#06x} was written (all writes: {:x?})", range_words, start, payload_len, w, words),
                            );
                        }
                        let mut seen = std::collections::BTreeSet::new();
                        if let Some(w) = words.iter().find(|w| !seen.insert(**w)) {
                            acc.v("word-written-twice", format!("range of {} words at {:#06x}, payload {} bytes: word {:#06x} written more than once ({:x?})", range_words, start, payload_len, w, words));
                        }
                        if total > (range_words as usize * 2).max(payload_len) {
                            acc.v("write-count-too-large", format!("reported {} bytes written into a range of {} words", total, range_words));
                        }
                    }
                    Ok(Err(m)) => acc.v("write-count-beyond-buffer", m),
                    Err(pn) => acc.v("panic short-range write", format!("range {} words at {:#06x}, payload {}: {}", range_words, start, payload_len, crate::e1::panic_msg(&pn))),
                }
            }
        }
    }
}

/// Device path: set_alias_address and eeprom_write_dangerously against a simulated device that
/// answers `cmd_errors` command errors per word, stays busy for `busy` polls, or forever.
fn device_path(acc: &mut Acc, thorough: bool) {
    let cases: Vec<(u8, u8, bool)> = {
        let mut v = Vec::new();
        for k in 0..=25u8 {
            v.push((k, 0, false));
        }
        for b in 1..=3u8 {
            v.push((0, b, false));
            v.push((2, b, false));
        }
        v.push((0, 0, true));
        v
    };
    let aliases: Vec<u16> = if thorough { vec![0, 1, 0x1234, 0x8000, 0xfffe, 0xffff] } else { vec![0x1234, 0xffff] };
    for (cmd_errors, busy, forever) in cases {
        for &alias in &aliases {
            let desc = simple_io(0x4000, &[8], &[8]);
            let mut dev = Device::new(desc.image());
            let before = dev.eeprom.clone();
            dev.sii.read8 = alias % 2 == 0;
            let mut net = Net::new(Segment::new(vec![dev]));
            let md = net.md();
            acc.n += 1;
            acc.nt += 1;
            let group = match net.run(async move { md.init_single_group::<2, 32>(|| 0).await }) {
                Ok(Ok(g)) => g,
                o => {
                    acc.v("setup-failed", format!("{:?}", o.map(|r| r.map(|_| ()))));
                    continue;
                }
            };
            {
                let mut seg = net.seg.borrow_mut();
                let d = &mut seg.devices[0];
                d.sii.write_cmd_errors = cmd_errors;
                d.sii.busy_polls = busy;
                d.sii.busy_forever = forever;
                d.arm_write_errors();
                d.sii_write_attempts.clear();
            }
            let mut group = group;
            let t0 = crate::clock::now();
            let r = net.run(async move {
                let mut it = group.iter_mut(md);
                let mut sd = it.next().expect("one device");
                let res = sd.set_alias_address(alias).await;
                let reported = sd.alias_address();
                res.map(|_| reported)
            });
            let elapsed = crate::clock::now() - t0;
            let seg = net.seg.borrow();
            let d = &seg.devices[0];
            let after = d.eeprom.clone();
            let mut want = before.clone();
            want[8..10].copy_from_slice(&alias.to_le_bytes());
            want[14] = crc8(&want[0..14]);
            want[15] = 0;
            let max_attempts = d.sii_write_attempts.values().copied().max().unwrap_or(0);
            if max_attempts > 21 {
                acc.v("too-many-write-attempts", format!("a word was attempted {} times (bound: first try + 20 retries) with {} command errors", max_attempts, cmd_errors));
            }
            match r {
                Ok(Ok(reported)) => {
                    *acc.outcomes.entry("device path ok".into()).or_insert(0) += 1;
                    if after != want {
                        let sig = if cmd_errors > 20 { "reported-written-but-not-stored cmd-errors>20" } else { "device-eeprom-wrong-after-alias" };
                        acc.v(sig, format!(
                            "set_alias_address({:#06x}) returned Ok (device answers {} command errors per word, busy {}), but the device EEPROM header is {:02x?}, expected {:02x?}",
                            alias, cmd_errors, busy, &after[..16], &want[..16]
                        ));
                    } else if reported != alias {
                        acc.v("alias-not-reported", format!("after set_alias_address({:#06x}) alias_address() = {:#06x}", alias, reported));
                    }
                    if forever {
                        acc.v("busy-forever-succeeded", "the device never leaves busy but the write succeeded".into());
                    }
                }
                Ok(Err(e)) => {
                    *acc.outcomes.entry(format!("device path err {}", format!("{:?}", e).chars().take(20).collect::<String>())).or_insert(0) += 1;
                    if !forever && cmd_errors <= 20 {
                        acc.v("healthy-alias-write-failed", format!("set_alias_address({:#06x}) failed with {:?} ({} command errors per word, busy {})", alias, e, cmd_errors, busy));
                    }
                    if forever && elapsed > 2_000 * 3 + 2_000 {
                        acc.v("busy-forever-late-error", format!("busy-forever device: error only after {} us (EEPROM timeout 2000 us)", elapsed));
                    }
                    // a failed write must not leave a half-written header that still claims to be valid? (not judged)
                }
                Err(Stop::Panic(p)) => acc.v("panic device alias write", format!("set_alias_address panicked: {}", p)),
                Err(s) => acc.v(
                    &format!("alias-write-did-not-finish {}", if forever { "busy-forever" } else { "other" }),
                    format!("set_alias_address did not finish: {:?} (cmd errors {}, busy {}, forever {})", s, cmd_errors, busy, forever),
                ),
            }
        }
    }
    // generic typed write through the public API
    for (val, word) in [(0xa1b2c3d4u32, 0x20u16), (0x11223344, 0x3d)] {
        let desc = simple_io(0x4000, &[8], &[8]);
        let dev = Device::new(desc.image());
        let before = dev.eeprom.clone();
        let mut net = Net::new(Segment::new(vec![dev]));
        let md = net.md();
        acc.n += 1;
        let r = net.run(async move {
            let g = md.init_single_group::<2, 32>(|| 0).await?;
            let sd = g.subdevice(md, 0)?;
            sd.eeprom_write_dangerously(md, word, val).await
        });
        let seg = net.seg.borrow();
        let after = &seg.devices[0].eeprom;
        let mut want = before.clone();
        want[word as usize * 2..word as usize * 2 + 4].copy_from_slice(&val.to_le_bytes());
        if !matches!(r, Ok(Ok(()))) || *after != want {
            acc.v("device-generic-write-wrong", format!("eeprom_write_dangerously({:#x} at word {:#x}) -> {:?}; stored {:02x?}", val, word, r.map(|x| x.map(|_| ())), &after[word as usize * 2..word as usize * 2 + 4]));
        }
    }
}

pub fn c14(tier: &Tier) -> Result<i32, String> {
    let mut rep = Report::new("C14", "exploration", tier);
    rep.rule = "all 65536 alias values x 8 header images (generated, all-zero, all-ones, 4 tagged, a real dump) on an in-memory provider: the whole image is compared with 'before, except word 4 = alias and word 7 = CRC-8(poly 0x07, init 0xFF) of the new first 14 bytes'; generic writes of every length 0..=64 at word addresses {0,1,7,60,last-1,last}, devices serving 4 and 8 bytes per access; device path: set_alias_address against a simulated device answering 0..=25 command errors per word, busy for 1..=3 polls, or busy forever; non-trivial = every alias write, every non-empty generic write".into();
    rep.assumptions = vec![
        "reference CRC written independently (bitwise CRC-8)".into(),
        "the in-memory provider always accepts writes; command errors / busy are exercised on the simulated device".into(),
    ];
    let workers = crate::core::workers() as u32;
    let per = (65536 + workers - 1) / workers;
    let mut accs: Vec<Acc> = std::thread::scope(|s| {
        let hs: Vec<_> = (0..workers).map(|w| s.spawn(move || alias_in_memory((w * per).min(65536), ((w + 1) * per).min(65536)))).collect();
        hs.into_iter().map(|h| h.join().expect("c14 worker")).collect()
    });
    let mut acc = Acc { n: 0, nt: 0, outcomes: BTreeMap::new(), viol: Vec::new() };
    for a in accs.drain(..) {
        acc.n += a.n;
        acc.nt += a.nt;
        for (s, m) in a.viol {
            acc.v(&s, m);
        }
    }
    *acc.outcomes.entry("alias writes (in memory)".into()).or_insert(0) += acc.n;
    generic_writes(&mut acc);
    short_ranges(&mut acc);
    device_path(&mut acc, tier.thorough);
    rep.evaluations = acc.n;
    rep.nontrivial = acc.nt;
    rep.outcomes = acc.outcomes;
    rep.states = acc.n;
    rep.transitions = acc.n;
    for (s, m) in acc.viol {
        if s == "machinery" {
            return Err(m);
        }
        rep.violation(&s, &m, json!({"engine": "c14", "detail": m}));
    }
    rep.samples.push(json!({"alias": "0x1234", "image": "EL2828 header", "expect_words_written": [4, 7]}));
    rep.samples.push(json!({"generic_write": {"word": 7, "len": 5}}));
    Ok(rep.finish())
}
