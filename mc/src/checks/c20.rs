//! C20: tasks sharing one MainDevice do not disturb each other.
//!
//! Schedules of cooperative tasks at await granularity and delivery orders of in-flight frames,
//! enumerated by the deviation-bounded explorer; each task's result is compared with the result
//! of the same task running alone on an identical segment.

use crate::checks::c09::{describe_device, DevCfg};
use crate::coe::CoeServer;
use crate::core::{explore_iterative, Bound, Ctx, Harness, Kind, Limits, RunResult, Violation};
use crate::eeprom::simple_io;
use crate::net::{run_many, timeouts, Net, Stop};
use crate::report::{Report, Tier};
use crate::sim::{Device, Segment};
use ethercrab::error::Error;
use ethercrab::{RetryBehaviour, SubDeviceGroup};
use serde_json::json;
use std::future::Future;
use std::pin::Pin;
use std::sync::OnceLock;
use std::time::Duration;

#[derive(Clone, Copy, Debug, PartialEq, Eq)]
pub enum Task {
    CycleA,
    CycleB,
    CycleC,
    RegisterRead,
    SdoRead,
    SdoWrite,
    Status,
}

pub struct C20Harness {
    pub label: String,
    pub tasks: Vec<Task>,
    pub frames: usize,
    /// Ethernet frame capacity: 1100 (every cycle is one LRW) or 100 (72 data bytes per LRW: group
    /// C's image is split over two frames)
    pub data: usize,
    /// also explore "a frame in flight is held longer than its sender waits" (one Env deviation each)
    pub late: bool,
    pub baseline: OnceLock<Vec<Vec<String>>>,
    pub seq_effects: OnceLock<String>,
}

#[derive(Default)]
struct Groups {
    a: SubDeviceGroup<4, 96>,
    b: SubDeviceGroup<4, 96>,
    c: SubDeviceGroup<4, 96>,
}

fn segment() -> Segment {
    // devices 0,1: group A (plain I/O); device 2: group B with a CoE mailbox; device 3: group B;
    // devices 4,5: group C (plain I/O)
    let mut devs = vec![
        Device::new(simple_io(0x8000, &[8, 8], &[8]).image()),
        Device::new(simple_io(0x8001, &[8], &[8, 8]).image()),
    ];
    let cfg = DevCfg { stale_addr: 0, read8: true, named: true, mailbox: true, dc: 0, busy: 0 };
    let mut d2 = describe_device(2, &cfg);
    d2.product = 0x8002;
    let mut dev2 = Device::new(d2.image());
    let mut coe = CoeServer::new(64);
    coe.od.insert((0x1c12, 0), vec![0]);
    coe.od.insert((0x1c13, 0), vec![0]);
    coe.od.insert((0x2000, 1), vec![0x11, 0x22, 0x33, 0x44]);
    coe.od.insert((0x2001, 0), (0..30u8).map(|i| 0x40 + i).collect());
    dev2.coe = Some(coe);
    devs.push(dev2);
    devs.push(Device::new(simple_io(0x8003, &[8], &[8]).image()));
    // 40 + 40 bytes: with 100-byte frames (72 data bytes per LRW) group C's cycle needs two frames
    devs.push(Device::new(simple_io(0x8004, &[8; 40], &[8; 40]).image()));
    devs.push(Device::new(simple_io(0x8005, &[8], &[8]).image()));
    let mut seg = Segment::new(devs);
    for (i, d) in seg.devices.iter_mut().enumerate() {
        for k in 0..4 {
            d.mem[0x1000 + k] = 0x80 | ((i * 16 + k) as u8);
        }
        d.mem[0x0f80] = 0x5a ^ i as u8;
    }
    seg
}

fn bring_up(frames: usize, data: usize) -> Result<(Net, [Op; 3]), String> {
    let mut net = Net::with_frames(segment(), timeouts(), RetryBehaviour::None, frames.max(2), data);
    let md = net.md();
    let r = net.run(async move {
        let g = md
            .init::<8, _>(|| 0, Groups::default(), |g, sd| match sd.identity().product_id {
                0x8000 | 0x8001 => Ok(&g.a),
                0x8002 | 0x8003 => Ok(&g.b),
                _ => Ok(&g.c),
            })
            .await?;
        let a = g.a.into_op(md).await?;
        let b = g.b.into_op(md).await?;
        let c = g.c.into_op(md).await?;
        Ok::<_, Error>([a, b, c])
    });
    match r {
        Ok(Ok(gs)) => {
            // the application's outputs
            for (gi, g) in gs.iter().enumerate() {
                for (k, sd) in g.iter(md).enumerate() {
                    for (j, o) in sd.outputs_raw_mut().iter_mut().enumerate() {
                        *o = 0x10 + (gi * 0x50 + k * 4 + j) as u8;
                    }
                }
            }
            Ok((net, gs))
        }
        o => Err(format!("bring-up failed: {:?}", o.map(|r| r.map(|_| ())))),
    }
}

type Op = SubDeviceGroup<4, 96, ethercrab::DefaultLock, ethercrab::subdevice_group::Op>;

fn cycle<'a>(g: &'a Op, md: &'static ethercrab::MainDevice<'static>) -> Pin<Box<dyn Future<Output = Vec<String>> + 'a>> {
    Box::pin(async move {
        let mut out = Vec::new();
        for _ in 0..2 {
            match g.tx_rx(md).await {
                Ok(r) => {
                    let ins: Vec<Vec<u8>> = g.iter(md).map(|sd| sd.inputs_raw().to_vec()).collect();
                    out.push(format!("wkc {} states {:?} inputs {:02x?}", r.working_counter, r.subdevice_states, ins));
                }
                Err(e) => out.push(format!("ERR {:?}", e)),
            }
        }
        out
    })
}

/// One task: a list of operations, one result string each.
fn task_future<'a>(t: Task, md: &'static ethercrab::MainDevice<'static>, gs: &'a [Op; 3]) -> Pin<Box<dyn Future<Output = Vec<String>> + 'a>> {
    let [a, b, c] = gs;
    match t {
        Task::CycleA => cycle(a, md),
        Task::CycleB => cycle(b, md),
        Task::CycleC => cycle(c, md),
        Task::RegisterRead => Box::pin(async move {
            let sd = a.subdevice(md, 1).expect("sd");
            let r1 = sd.register_read::<u16>(0x0010u16).await;
            let r2 = sd.register_read::<u8>(0x0f80u16).await;
            vec![format!("{:x?}", r1), format!("{:x?}", r2)]
        }),
        Task::SdoRead => Box::pin(async move {
            let sd = b.subdevice(md, 0).expect("sd");
            let r1 = sd.sdo_read::<u32>(0x2000, 1).await;
            let r2 = sd.sdo_read::<[u8; 30]>(0x2001, 0).await;
            vec![format!("{:x?}", r1), format!("{:x?}", r2.map(|v| v.to_vec()))]
        }),
        Task::SdoWrite => Box::pin(async move {
            let sd = b.subdevice(md, 0).expect("sd");
            let r1 = sd.sdo_write(0x3000, 1, 0xa1b2u16).await;
            vec![format!("{:?}", r1)]
        }),
        Task::Status => Box::pin(async move {
            let sd = a.subdevice(md, 0).expect("sd");
            vec![format!("{:?}", sd.status().await)]
        }),
    }
}

/// Observable effects on the devices after the tasks ran (output memories, CoE downloads).
fn device_effects(net: &Net) -> String {
    let seg = net.seg.borrow();
    let outs: Vec<Vec<u8>> = seg.devices.iter().map(|d| d.mem[0x0f00..0x0f04].to_vec()).collect();
    let dl: Vec<(u16, u8, Vec<u8>)> = seg.devices[2].coe.as_ref().map(|c| c.downloads.iter().map(|d| (d.0, d.1, d.3.clone())).collect()).unwrap_or_default();
    format!("outputs {:02x?} downloads {:x?}", outs, dl)
}

impl C20Harness {
    pub fn new(label: &str, tasks: Vec<Task>, frames: usize) -> Self {
        Self { label: label.into(), tasks, frames, data: 1100, late: false, baseline: OnceLock::new(), seq_effects: OnceLock::new() }
    }

    pub fn late(mut self) -> Self {
        self.late = true;
        self
    }

    pub fn small_frames(mut self) -> Self {
        self.data = 100;
        self
    }

    /// Device effects after the tasks ran one after the other on one fresh network.
    fn sequential_effects(&self) -> &String {
        self.seq_effects.get_or_init(|| {
            let (mut net, gs) = bring_up(8, self.data).expect("baseline bring-up");
            let md = net.md();
            for t in &self.tasks {
                let fut = task_future(*t, md, &gs);
                let _ = net.run(fut);
            }
            device_effects(&net)
        })
    }

    /// Each task alone on a fresh identical network.
    fn baseline(&self) -> &Vec<Vec<String>> {
        self.baseline.get_or_init(|| {
            self.tasks
                .iter()
                .map(|t| {
                    let (mut net, gs) = bring_up(8, self.data).expect("baseline bring-up");
                    let md = net.md();
                    let fut = task_future(*t, md, &gs);
                    match net.run(fut) {
                        Ok(s) => s,
                        Err(e) => vec![format!("BASELINE-STOP {:?}", e)],
                    }
                })
                .collect()
        })
    }
}

fn is_cycle(t: Task) -> bool {
    matches!(t, Task::CycleA | Task::CycleB | Task::CycleC)
}

impl Harness for C20Harness {
    fn name(&self) -> String {
        self.label.clone()
    }

    fn run(&self, ctx: &mut Ctx) -> RunResult {
        let base = self.baseline().clone();
        let mut violations = Vec::new();
        let (mut net, gs) = match bring_up(self.frames, self.data) {
            Ok(x) => x,
            Err(e) => {
                return RunResult { violations: vec![Violation { signature: "bring-up-failed".into(), message: e }], outcome: "bring-up failed".into(), nontrivial: false };
            }
        };
        let md = net.md();
        {
            let mut seg = net.seg.borrow_mut();
            seg.keep_logs = true;
            seg.frame_log.clear();
        }
        let futs: Vec<Pin<Box<dyn Future<Output = Vec<String>> + '_>>> = self.tasks.iter().map(|t| task_future(*t, md, &gs)).collect();
        let ctxp: *mut Ctx = ctx;
        let mut polls = 0u64;
        let mut pick = |n: usize| -> usize {
            polls += 1;
            unsafe { (*ctxp).choose(Kind::Env, n) }
        };
        let mut deliver = |n: usize| -> usize { unsafe { (*ctxp).choose(Kind::Env, n) } };
        let mut held = 0u32;
        let r = run_many(&mut net, futs, &mut pick, &mut deliver, 5_000, self.late, &mut held);
        let outcome;
        let mut any_timeout = false;
        match r {
            Ok(results) => {
                let mut parts = Vec::new();
                for (i, res) in results.iter().enumerate() {
                    let got = res.clone().unwrap_or_else(|| vec!["unfinished".into()]);
                    ctx.log(|| format!("task {:?} -> {:?}", self.tasks[i], got));
                    // A frame held past its sender's deadline (only when the explorer chose so) makes that
                    // operation time out. Nothing else may change: operations before it, every operation of
                    // other tasks, and later process-data cycles (stateless) of the same task.
                    let mut kind = "same";
                    let mut timed_out = false;
                    if got.len() != base[i].len() {
                        kind = "differs";
                    }
                    for (k, g) in got.iter().enumerate() {
                        if kind != "same" {
                            break;
                        }
                        let want = base[i].get(k).cloned().unwrap_or_default();
                        if *g == want {
                            continue;
                        }
                        if held > 0 && g.contains("Timeout") {
                            timed_out = true;
                            any_timeout = true;
                            continue;
                        }
                        if timed_out && !is_cycle(self.tasks[i]) {
                            // a mailbox exchange after an abandoned one depends on what the device still holds
                            continue;
                        }
                        kind = if g.contains("ERR") || g.contains("Err(") { "fails" } else { "differs" };
                    }
                    if kind != "same" {
                        violations.push(Violation {
                            signature: format!("task-result-{} task={:?}{}", kind, self.tasks[i], if held > 0 { " after-held-frame" } else { "" }),
                            message: format!("task {:?} sharing the MainDevice with {:?} returned {:?}, alone it returns {:?} ({} frame slots, {} frame(s) held past a deadline)", self.tasks[i], self.tasks, got, base[i], self.frames, held),
                        });
                    }
                    parts.push(format!("{:?}:{}", self.tasks[i], if timed_out && kind == "same" { "timeout-only" } else { kind }));
                }
                outcome = parts.join(" ");
            }
            Err(Stop::Panic(p)) => {
                violations.push(Violation { signature: "panic".into(), message: p });
                outcome = "panic".into();
            }
            Err(s) => {
                violations.push(Violation { signature: format!("tasks-did-not-finish {}", match s { Stop::Deadlock => "deadlock", _ => "horizon" }), message: format!("{:?}", s) });
                outcome = "stuck".into();
            }
        }
        if !net.rx_errors.is_empty() && held == 0 {
            violations.push(Violation { signature: format!("response-rejected {}", net.rx_errors[0].chars().take(24).collect::<String>()), message: format!("receive side rejected frames: {:?}", net.rx_errors) });
        }
        // effects on the devices must be what the tasks produce one by one
        let eff = device_effects(&net);
        ctx.log(|| format!("effects {}", eff));
        ctx.transitions += polls;
        let want = self.sequential_effects();
        if &eff != want && violations.is_empty() && !any_timeout {
            violations.push(Violation {
                signature: "device-effects-differ".into(),
                message: format!("after {:?} ran concurrently the devices hold {}, after the same tasks one by one they hold {}", self.tasks, eff, want),
            });
        }
        // the wire schedule (which datagrams shared which frame, in which order) identifies the state reached
        let wire: String = net.seg.borrow().frame_log.iter().map(|f| f.iter().map(|d| format!("{:02x}:{:04x}:{:04x}:{}", d.cmd, d.adp, d.ado, d.sent.len())).collect::<Vec<_>>().join("+")).collect::<Vec<_>>().join("|");
        ctx.state_hashes.push(crate::core::fnv(format!("{}#{}", wire, held).as_bytes()));
        let _ = Duration::ZERO;
        RunResult { violations, outcome, nontrivial: true }
    }

    fn params(&self) -> serde_json::Value {
        json!({"engine": "c20", "label": self.label, "tasks": format!("{:?}", self.tasks), "frames": self.frames, "frame_bytes": self.data, "late": self.late})
    }
}

pub fn harnesses(thorough: bool) -> Vec<(C20Harness, Vec<Bound>)> {
    let t2: Vec<Bound> = (0..=if thorough { 5 } else { 4 }).map(Bound::total).collect();
    let t3: Vec<Bound> = (0..=6).map(Bound::total).collect();
    let b = if thorough { t3.clone() } else { t2.clone() };
    let tl: Vec<Bound> = (0..=if thorough { 5 } else { 3 }).map(Bound::total).collect();
    let mut v = vec![
        (C20Harness::new("c20-cycleA+cycleB-N2", vec![Task::CycleA, Task::CycleB], 2), b.clone()),
        (C20Harness::new("c20-cycleA+cycleB+cycleC-N4", vec![Task::CycleA, Task::CycleB, Task::CycleC], 4), t2.clone()),
        (C20Harness::new("c20-cycleA+cycleB+regread-N4", vec![Task::CycleA, Task::CycleB, Task::RegisterRead], 4), b.clone()),
        (C20Harness::new("c20-cycleA+sdoread+regread-N4", vec![Task::CycleA, Task::SdoRead, Task::RegisterRead], 4), t2.clone()),
        (C20Harness::new("c20-cycleB+sdoread-N2", vec![Task::CycleB, Task::SdoRead], 2), t2.clone()),
        (C20Harness::new("c20-status+cycleC+sdowrite-N4", vec![Task::Status, Task::CycleC, Task::SdoWrite], 4), t2.clone()),
        // 100-byte frames: group C's image (80 bytes at a non-zero logical address) is split over two LRWs
        (C20Harness::new("c20-split-cycleB+cycleC+regread-N8", vec![Task::CycleB, Task::CycleC, Task::RegisterRead], 8).small_frames(), t2.clone()),
        // a frame may be held past its sender's deadline: the late response must reach nobody
        (C20Harness::new("c20-late-cycleA+cycleB-N2", vec![Task::CycleA, Task::CycleB], 2).late(), tl.clone()),
        (C20Harness::new("c20-late-cycleC+regread+status-N4", vec![Task::CycleC, Task::RegisterRead, Task::Status], 4).late(), tl.clone()),
        (C20Harness::new("c20-late-cycleB+sdoread-N4", vec![Task::CycleB, Task::SdoRead], 4).late(), tl.clone()),
    ];
    if thorough {
        v.push((C20Harness::new("c20-4tasks-N16", vec![Task::CycleA, Task::CycleB, Task::RegisterRead, Task::SdoRead], 16), t2.clone()));
        v.push((C20Harness::new("c20-4tasks-N8", vec![Task::CycleA, Task::CycleC, Task::Status, Task::SdoWrite], 8), t2.clone()));
        v.push((C20Harness::new("c20-late-3cycles-N4", vec![Task::CycleA, Task::CycleB, Task::CycleC], 4).late(), tl));
    }
    v
}

pub fn harness_by_label(label: &str) -> Option<Box<dyn Harness>> {
    harnesses(true).into_iter().find(|(h, _)| h.label == label).map(|(h, _)| Box::new(h) as Box<dyn Harness>)
}

pub fn c20(tier: &Tier) -> Result<i32, String> {
    let mut rep = Report::new("C20", "model_checking", tier);
    rep.rule = "2..=4 cooperative tasks (process-data cycles of three groups, register reads, status, SDO read and SDO write on different SubDevices) on one MainDevice against a 6-device segment in 3 groups; at every step the explorer chooses which ready task is polled or which in-flight frame is delivered; stateless DFS with iterative deviation bounding from the FIFO schedule; every execution runs the real stack; each task's result is compared with the same task running alone on an identical segment; storage of 2, 4, 8 or 16 frame slots (always at least as many as tasks; four tasks get 8 or 16); the 'late' harnesses add the choice 'a frame in flight is held past the deadline of its sender' (that operation may time out, nothing else may change and the late response must reach nobody); non-trivial = every execution (at least two tasks overlap)".into();
    rep.assumptions = vec![
        "schedules at await granularity (interleavings inside the PDU loop primitives are C01/C02/C06)".into(),
        "tasks are chosen to commute on device state; two tasks never use the same group's image".into(),
        "per-frame latency is abstracted to 'any delivery order of in-flight frames'".into(),
    ];
    let budget = if tier.thorough { 1200.0 } else { 45.0 };
    let hs = harnesses(tier.thorough);
    let nh = hs.len() as f64;
    let known = crate::report::Known::load();
    for (k, (h, bounds)) in hs.into_iter().enumerate() {
        let remaining = (budget - rep.t0.elapsed().as_secs_f64()).max(3.0);
        let lim = Limits { max_executions: u64::MAX, max_wall: Duration::from_secs_f64(if tier.thorough { remaining / (nh - k as f64).max(1.0) * 1.5 } else { 150.0 }), workers: crate::core::workers() };
        let is_known = |s: &str| known.find("C20", s).is_some();
        let st = explore_iterative(&h, &bounds, &lim, tier.seed, &is_known)?;
        println!(
            "  {:<36} bound {:?}: {} executions, {} distinct wire schedules, {} outcomes, {:.1}s{}",
            h.name(),
            st.bound_completed.map(|b| b.total),
            st.executions,
            st.states,
            st.outcomes.len(),
            st.wall_s,
            st.cap_hit.as_ref().map(|c| format!(" CAP: {}", c)).unwrap_or_default()
        );
        if rep.samples.len() < 2 {
            rep.sample_default_run(&h);
        }
        rep.absorb(&h, &st)?;
        if !rep.unknown.is_empty() {
            break;
        }
    }
    Ok(rep.finish())
}
