pub mod e1_checks;
pub mod e2_checks;
pub mod c04;
pub mod simtest;
pub mod c08;
pub mod c09;
pub mod c07;
pub mod c10;
pub mod c11;
pub mod c12;
pub mod c13;
pub mod c14;
pub mod c15;
pub mod c16;
pub mod c17;
pub mod c18;
pub mod c19;
pub mod c20;

use crate::report::Tier;

/// Run the check for property `id`; returns the process exit code.
pub fn run(id: &str, tier: &Tier, child: bool) -> Result<i32, String> {
    match id {
        "C01" => e1_checks::c01(tier),
        "C02" => e1_checks::c02(tier),
        "C06" => e1_checks::c06(tier),
        "C03" => e2_checks::c03(tier),
        "C04" => c04::c04(tier),
        "C08" => c08::c08(tier),
        "C09" => c09::c09(tier),
        "C07" => c07::c07(tier),
        "C10" => c10::c10(tier),
        "C11" => c11::c11(tier),
        "C12" => c12::c12(tier),
        "C13" => c13::c13(tier, child),
        "C14" => c14::c14(tier),
        "C15" => c15::c15(tier),
        "C16" => c16::c16(tier, child),
        "C17" => c17::c17(tier, child),
        "C18" => c18::c18(tier, child),
        "C19" => c19::c19(tier),
        "C20" => c20::c20(tier),
        "C05" => e2_checks::c05(tier),
        _ => Err(format!("no check registered for {}", id)),
    }
}

/// Run the same check in the other build flavour (`target/fast/vx <ID> --child`) and return its
/// machine readable summary.
pub fn run_child_flavour(id: &str, tier: &Tier) -> Result<serde_json::Value, String> {
    let exe = std::env::current_exe().map_err(|e| e.to_string())?;
    let fast = exe
        .parent()
        .and_then(|p| p.parent())
        .map(|p| p.join("fast").join("vx"))
        .ok_or("cannot locate target dir")?;
    if !fast.exists() {
        return Err(format!("{} not built (run ./check or setup.sh)", fast.display()));
    }
    let out = std::process::Command::new(&fast)
        .arg(id)
        .arg("--tier")
        .arg(tier.name())
        .arg("--child")
        .output()
        .map_err(|e| e.to_string())?;
    let stdout = String::from_utf8_lossy(&out.stdout);
    for l in stdout.lines() {
        if let Some(j) = l.strip_prefix("CHILD-RESULT ") {
            return serde_json::from_str(j).map_err(|e| e.to_string());
        }
    }
    Err(format!(
        "no result from {} (status {:?}): {}",
        fast.display(),
        out.status.code(),
        String::from_utf8_lossy(&out.stderr).chars().take(400).collect::<String>()
    ))
}
