pub mod e1_checks;

use crate::report::Tier;

/// Run the check for property `id`; returns the process exit code.
pub fn run(id: &str, tier: &Tier) -> Result<i32, String> {
    match id {
        "C01" => e1_checks::c01(tier),
        "C02" => e1_checks::c02(tier),
        "C06" => e1_checks::c06(tier),
        _ => Err(format!("no check registered for {}", id)),
    }
}
