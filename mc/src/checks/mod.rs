pub mod e1_checks;
pub mod e2_checks;
pub mod c04;
pub mod simtest;
pub mod c09;
pub mod c07;
pub mod c10;
pub mod c11;
pub mod c12;

use crate::report::Tier;

/// Run the check for property `id`; returns the process exit code.
pub fn run(id: &str, tier: &Tier) -> Result<i32, String> {
    match id {
        "C01" => e1_checks::c01(tier),
        "C02" => e1_checks::c02(tier),
        "C06" => e1_checks::c06(tier),
        "C03" => e2_checks::c03(tier),
        "C04" => c04::c04(tier),
        "C09" => c09::c09(tier),
        "C07" => c07::c07(tier),
        "C10" => c10::c10(tier),
        "C11" => c11::c11(tier),
        "C12" => c12::c12(tier),
        "C05" => e2_checks::c05(tier),
        _ => Err(format!("no check registered for {}", id)),
    }
}
