//! C17: topology and propagation delays are reconstructed correctly from port timestamps.

use crate::checks::c13::Acc;
use crate::eeprom::simple_io;
use crate::net::{Net, Stop};
use crate::report::{Report, Tier};
use crate::sim::{Device, Segment, Wiring};
use ethercrab::error::Error;
use ethercrab::{MainDeviceConfig, RetryBehaviour};
use serde_json::json;

/// A tree in frame-processing order: parent[i] = (parent index, parent's port) for i > 0.
#[derive(Clone, Debug)]
pub struct Tree {
    pub parent: Vec<Option<(usize, usize)>>,
}

/// All rooted trees with exactly `n` nodes whose children hang off distinct ports of {3, 1, 2},
/// numbered in processing order (pre-order, ports visited 3, 1, 2).
pub fn trees(n: usize) -> Vec<Tree> {
    // shapes(n) = list of trees as (parent vectors relative to root index 0)
    fn shapes(n: usize, memo: &mut Vec<Option<Vec<Vec<Option<(usize, usize)>>>>>) -> Vec<Vec<Option<(usize, usize)>>> {
        if let Some(Some(v)) = memo.get(n) {
            return v.clone();
        }
        let mut out: Vec<Vec<Option<(usize, usize)>>> = Vec::new();
        if n == 1 {
            out.push(vec![None]);
        } else if n > 1 {
            // choose the set of used child ports (in visiting order 3,1,2) and split n-1 nodes
            for mask in 1..8u8 {
                let ports: Vec<usize> = [3usize, 1, 2].iter().enumerate().filter(|(k, _)| mask & (1 << k) != 0).map(|(_, p)| *p).collect();
                let k = ports.len();
                // compositions of n-1 into k positive parts
                let mut comps: Vec<Vec<usize>> = Vec::new();
                fn comp(rest: usize, k: usize, cur: &mut Vec<usize>, out: &mut Vec<Vec<usize>>) {
                    if k == 1 {
                        if rest >= 1 {
                            cur.push(rest);
                            out.push(cur.clone());
                            cur.pop();
                        }
                        return;
                    }
                    for a in 1..=rest.saturating_sub(k - 1) {
                        cur.push(a);
                        comp(rest - a, k - 1, cur, out);
                        cur.pop();
                    }
                }
                comp(n - 1, k, &mut Vec::new(), &mut comps);
                for c in comps {
                    // cartesian product of subtree shapes
                    let subs: Vec<Vec<Vec<Option<(usize, usize)>>>> = c.iter().map(|m| shapes(*m, memo)).collect();
                    let mut idx = vec![0usize; k];
                    loop {
                        let mut t: Vec<Option<(usize, usize)>> = vec![None];
                        for (j, port) in ports.iter().enumerate() {
                            let base = t.len();
                            let sub = &subs[j][idx[j]];
                            for (q, p) in sub.iter().enumerate() {
                                match p {
                                    None => t.push(Some((0, *port))),
                                    Some((pp, pport)) => t.push(Some((base + pp, *pport))),
                                }
                                let _ = q;
                            }
                        }
                        out.push(t);
                        // next index
                        let mut j = 0;
                        loop {
                            if j == k {
                                break;
                            }
                            idx[j] += 1;
                            if idx[j] < subs[j].len() {
                                break;
                            }
                            idx[j] = 0;
                            j += 1;
                        }
                        if j == k {
                            break;
                        }
                    }
                }
            }
        }
        while memo.len() <= n {
            memo.push(None);
        }
        memo[n] = Some(out.clone());
        out
    }
    let mut memo = Vec::new();
    shapes(n, &mut memo).into_iter().map(|parent| Tree { parent }).collect()
}

#[derive(Clone, Debug)]
pub struct Case {
    pub tree: Tree,
    /// DC level per device: 0 none, 2 32-bit, 3 64-bit
    pub dc: Vec<u8>,
    /// one-way link delay to the parent (ns)
    pub link: Vec<u64>,
    /// forwarding delay (ns), uniform
    pub fwd: u64,
    /// global time at which the latch frame enters device 0
    pub latch_at: u64,
    pub now: u64,
    /// closed ports hold a receive time this many ns (times the port number) before the entry time
    /// (None: zero)
    pub stale: Option<u64>,
}

fn is_chain(t: &Tree) -> bool {
    t.parent.iter().enumerate().all(|(i, p)| i == 0 || p.map(|x| x.0) == Some(i - 1))
}

fn build(case: &Case) -> Segment {
    let n = case.tree.parent.len();
    let devs: Vec<Device> = (0..n)
        .map(|i| {
            let mut d = Device::new(simple_io(0x7000 + i as u32, &[8], &[]).image());
            d.dc.supported = case.dc[i] > 0;
            d.dc.enhanced = case.dc[i] > 0;
            d.dc.bits64 = case.dc[i] == 3;
            d.dc.clock_offset = (i as u64) * 1_000_003;
            d
        })
        .collect();
    let mut seg = Segment::new(devs);
    seg.wiring = Wiring { parent: case.tree.parent.clone(), link_delay: case.link.clone(), fwd_delay: vec![case.fwd; n] };
    seg.apply_chain_ports();
    seg
}

fn run_case(acc: &mut Acc, case: &Case) {
    let n = case.tree.parent.len();
    let seg = build(case);
    let truth: Vec<u64> = seg.arrival_times();
    let mut net = Net::with_cfg(
        seg,
        crate::net::timeouts(),
        MainDeviceConfig { dc_static_sync_iterations: 1, retry_behaviour: RetryBehaviour::None },
    );
    // make the latch frame enter device 0 exactly at `latch_at`: the segment clock is set when the
    // latch BWR arrives (hook in the simulator)
    net.seg.borrow_mut().latch_time_override = Some(case.latch_at);
    net.seg.borrow_mut().closed_port_stale = case.stale;
    net.seg.borrow_mut().keep_logs = true;
    let md = net.md();
    let now = case.now;
    acc.n += 1;
    acc.nt += 1;
    let ctx = format!("{:?}", case);
    let r = net.run(async move {
        let g = md.init_single_group::<32, 64>(move || now).await?;
        let v: Vec<(u16, Option<u16>, u32)> = g.iter(md).map(|sd| (sd.configured_address(), sd.verif_parent_index(), sd.propagation_delay())).collect();
        Ok::<_, Error>(v)
    });
    let recs = match r {
        Ok(Ok(v)) => v,
        Ok(Err(e)) => {
            acc.v(&format!("valid-tree-rejected {}", format!("{:?}", e).chars().take(24).collect::<String>()), format!("init failed with {:?} on a valid tree [{}]", e, ctx));
            return;
        }
        Err(Stop::Panic(p)) => {
            acc.v(&format!("panic valid-tree {}", p.chars().map(|c| if c.is_ascii_digit() { '#' } else { c }).take(40).collect::<String>()), format!("{} [{}]", p, ctx));
            return;
        }
        Err(s) => {
            acc.v("init-did-not-finish", format!("{:?} [{}]", s, ctx));
            return;
        }
    };
    *acc.outcomes.entry("tree ok".into()).or_insert(0) += 1;
    let seg = net.seg.borrow();
    let dcs: Vec<usize> = (0..n).filter(|i| case.dc[*i] > 0).collect();
    let wrap = {
        // does any latched 32-bit port time wrap within this network's loop?
        let lo = seg.devices.iter().flat_map(|d| d.port_times.iter().copied().filter(|t| *t > 0)).min().unwrap_or(0);
        let hi = seg.devices.iter().flat_map(|d| d.port_times.iter().copied()).max().unwrap_or(0);
        (lo >> 32) != (hi >> 32) || seg.devices.iter().any(|d| { let ts: Vec<u64> = d.port_times.iter().copied().filter(|t| *t > 0).collect(); ts.iter().any(|a| ts.iter().any(|b| (a >> 32) != (b >> 32))) })
    };
    let cls = if wrap { " 32-bit-wrap" } else if dcs.len() < n { " mixed-dc" } else { "" };
    // parent = true upstream neighbour
    for (i, (_addr, parent, _)) in recs.iter().enumerate() {
        let want = case.tree.parent[i].map(|p| p.0 as u16);
        if *parent != want {
            acc.v(&format!("wrong-upstream-neighbour{}", cls), format!("device {} was given upstream neighbour {:?}, it hangs off {:?} [{}]", i, parent, want, ctx));
        }
    }
    // delays written to 0x0928
    let written: Vec<Option<u32>> = (0..n)
        .map(|i| seg.devices[i].writes.iter().rev().find(|w| w.addr == 0x0928 && w.cmd != 8).map(|w| u32::from_le_bytes([w.data[0], w.data[1], w.data[2], w.data[3]])))
        .collect();
    let mut last = 0u32;
    for &i in &dcs {
        match written[i] {
            None => acc.v("delay-not-written", format!("DC device {} got no propagation delay [{}]", i, ctx)),
            Some(d) => {
                if d < last {
                    acc.v(&format!("delay-decreases{}", cls), format!("delay of device {} is {} after {} for an earlier device [{}]", i, d, last, ctx));
                }
                last = last.max(d);
                if recs[i].2 != d {
                    acc.v("delay-record-differs", format!("device {}: propagation_delay() = {}, register written {} [{}]", i, recs[i].2, d, ctx));
                }
            }
        }
    }
    for i in 0..n {
        if case.dc[i] == 0 && written[i].is_some() {
            acc.v("delay-written-to-non-dc-device", format!("device {} has no DC but got a delay [{}]", i, ctx));
        }
    }
    if is_chain(&case.tree) && !dcs.is_empty() {
        let r0 = dcs[0];
        for &i in &dcs {
            let want = truth[i] - truth[r0];
            if let Some(d) = written[i] {
                if u64::from(d) != want {
                    acc.v(&format!("chain-delay-wrong{}", cls), format!("chain: device {} got delay {} ns, the true one-way delay from the first DC device is {} ns [{}]", i, d, want, ctx));
                }
            }
        }
    }
    // offsets: master time - latched receive time
    for &i in &dcs {
        let recv = seg.devices[i].port_times[0];
        let want = (case.now as i64).wrapping_sub(recv as i64);
        match seg.devices[i].writes.iter().rev().find(|w| w.addr == 0x0920 && w.cmd != 8) {
            Some(w) if w.data.len() >= 8 => {
                let got = i64::from_le_bytes([w.data[0], w.data[1], w.data[2], w.data[3], w.data[4], w.data[5], w.data[6], w.data[7]]);
                if got != want {
                    acc.v("offset-wrong", format!("device {}: system time offset {} written, expected master time {} - receive time {} = {} [{}]", i, got, case.now, recv, want, ctx));
                }
            }
            other => acc.v("offset-not-written", format!("device {}: {:?} [{}]", i, other.map(|w| w.data.len()), ctx)),
        }
    }
    // reference = first DC device: the static sync FRMW goes there
    if let Some(&r0) = dcs.first() {
        let frmw: Vec<u16> = seg.dgram_log.iter().filter(|d| d.1 == 14).map(|d| d.2).collect();
        if frmw.is_empty() || frmw.iter().any(|a| *a != 0x1000 + r0 as u16) {
            acc.v("reference-not-first-dc-device", format!("time distribution datagrams went to {:x?}, the first DC device is {:#06x} [{}]", frmw, 0x1000 + r0, ctx));
        }
    }
}

/// No-panic clause: arbitrary (inconsistent) DL status / port time reports.
fn inconsistent(acc: &mut Acc, ndev: usize) {
    let patterns: [[u32; 4]; 4] = [[0, 0, 0, 0], [500, 500, 500, 500], [4000, 3000, 2000, 1000], [u32::MAX, u32::MAX, u32::MAX, u32::MAX]];
    let total = 16usize.pow(ndev as u32);
    for m in 0..total {
        for (pi, pat) in patterns.iter().enumerate() {
            let devs: Vec<Device> = (0..ndev)
                .map(|i| {
                    let mut d = Device::new(simple_io(0x7000 + i as u32, &[8], &[]).image());
                    d.dc.supported = true;
                    d.dc.enhanced = true;
                    d.dc.bits64 = i % 2 == 0;
                    let ports = (m / 16usize.pow(i as u32)) % 16;
                    // DL status: link bits 4..7 = ports 0,1,2,3
                    let mut v = 0x0001u16;
                    for p in 0..4 {
                        if ports & (1 << p) != 0 {
                            v |= 1 << (4 + p);
                        }
                    }
                    d.dl_status_override = Some(v);
                    let mut pt = *pat;
                    if pi == 2 {
                        pt.rotate_left(i % 4);
                    }
                    d.port_time_override = Some(pt);
                    d
                })
                .collect();
            let mut net = Net::new(Segment::new(devs));
            let md = net.md();
            acc.n += 1;
            acc.nt += 1;
            let r = net.run(async move { md.init_single_group::<8, 64>(|| 1_000_000).await.map(|g| g.len()) });
            match r {
                Ok(Ok(_)) => *acc.outcomes.entry("inconsistent report accepted".into()).or_insert(0) += 1,
                Ok(Err(_)) => *acc.outcomes.entry("inconsistent report -> error".into()).or_insert(0) += 1,
                Err(Stop::Panic(p)) => {
                    let site: String = {
                        let mut s = String::new();
                        for c in p.chars() {
                            if c.is_ascii_digit() {
                                if !s.ends_with('#') {
                                    s.push('#');
                                }
                            } else {
                                s.push(c);
                            }
                        }
                        s.chars().take(48).collect()
                    };
                    acc.v(
                        &format!("panic inconsistent-report {}", site),
                        format!("init panicked: {} [open-port sets {:?} (bit p = port p), port time pattern {}]", p, (0..ndev).map(|i| (m / 16usize.pow(i as u32)) % 16).collect::<Vec<_>>(), pi),
                    );
                }
                Err(s) => acc.v("inconsistent-report-did-not-finish", format!("{:?}", s)),
            }
        }
    }
}

pub fn enumerate(thorough: bool) -> Acc {
    let mut acc = Acc::new();
    let nmax = if thorough { 6 } else { 5 };
    let links = [10u64, 100, 2000];
    for n in 1..=nmax {
        for (ti, tree) in trees(n).into_iter().enumerate() {
            // all-DC, uniform forwarding delay, link delays by position
            for fwd in [0u64, 40] {
                let link: Vec<u64> = (0..n).map(|i| links[(i + ti) % 3]).collect();
                for bits in [3u8, 2] {
                    run_case(&mut acc, &Case { tree: tree.clone(), dc: vec![bits; n], link: link.clone(), fwd, latch_at: 5_000_000, now: 77_000_000_000, stale: None });
                }
                if fwd == 40 {
                    run_case(&mut acc, &Case { tree: tree.clone(), dc: vec![2; n], link: link.clone(), fwd, latch_at: 5_000_000, now: 77_000_000_000, stale: Some(700) });
                }
            }
            // every DC / non-DC mask (n <= 4; a sample for larger n)
            if n <= 4 || thorough {
                for mask in 0..(1u32 << n) {
                    let dc: Vec<u8> = (0..n).map(|i| if mask & (1 << i) != 0 { 3 } else { 0 }).collect();
                    if dc.iter().all(|d| *d > 0) {
                        continue;
                    }
                    run_case(&mut acc, &Case { tree: tree.clone(), dc, link: vec![100; n], fwd: 40, latch_at: 5_000_000, now: 1, stale: None });
                }
            }
            // latch instant within one loop time of the 2^32 ns wrap
            if n >= 2 {
                for back in [1u64, 150, 1_000] {
                    run_case(&mut acc, &Case { tree: tree.clone(), dc: vec![2; n], link: vec![100; n], fwd: 40, latch_at: (1u64 << 32) - back, now: 9_000_000_000, stale: None });
                    // the same with left-over times in the registers of the closed ports
                    for stale in [1_000u64, 1 << 30] {
                        run_case(&mut acc, &Case { tree: tree.clone(), dc: vec![2; n], link: vec![100; n], fwd: 40, latch_at: (1u64 << 32) - back, now: 9_000_000_000, stale: Some(stale) });
                    }
                }
            }
        }
    }
    // long chains
    for n in [8usize, 16, 24] {
        let tree = Tree { parent: (0..n).map(|i| if i == 0 { None } else { Some((i - 1, 1)) }).collect() };
        run_case(&mut acc, &Case { tree: tree.clone(), dc: vec![3; n], link: (0..n).map(|i| links[i % 3] as u64).collect(), fwd: 40, latch_at: 5_000_000, now: 123, stale: None });
        run_case(&mut acc, &Case { tree, dc: (0..n).map(|i| if i % 3 == 1 { 0 } else { 3 }).collect(), link: vec![100; n], fwd: 40, latch_at: 5_000_000, now: 123, stale: None });
    }
    inconsistent(&mut acc, 1);
    inconsistent(&mut acc, 2);
    if thorough {
        inconsistent(&mut acc, 3);
    }
    acc
}

pub fn c17(tier: &Tier, child: bool) -> Result<i32, String> {
    let acc = enumerate(tier.thorough);
    if child {
        let out = json!({"evaluations": acc.n, "nontrivial": acc.nt, "outcomes": acc.outcomes, "violations": acc.viol});
        println!("CHILD-RESULT {}", out);
        return Ok(0);
    }
    let mut rep = Report::new("C17", "exploration", tier);
    rep.rule = "every rooted tree with up to 5 nodes (6 thorough) whose children hang off distinct ports of {3,1,2}, numbered in frame-processing order; per tree: all-DC with 32- and 64-bit clocks, forwarding delay 0 / 40 ns, link delays {10,100,2000} ns by position; every DC/non-DC mask (n <= 4); latch instants 1, 150 and 1000 ns before the 2^32 ns wrap, each also with left-over receive times (1000 ns / 2^30 ns per port number before the entry time) in the registers of the closed ports; chains of 8, 16 and 24; port receive times come from a physical model of the tree; no-panic clause: every assignment of open-port sets (16 per device) x 4 port-time patterns for 1 and 2 devices (3 thorough); with and without overflow checks; non-trivial = every network".into();
    rep.assumptions = vec![
        "physical model: a frame entering a port is time-stamped with the local clock, forwarding to the next open port costs f, a link costs w each way, ports are visited 0 -> 3 -> 1 -> 2 -> 0; with one forwarding delay shared by all devices the true one-way delay on a chain is the sum of (w + f)".into(),
        "the exact-delay clause is judged on chains; the monotonicity, upstream-neighbour, offset and reference clauses on every tree".into(),
    ];
    rep.evaluations = acc.n;
    rep.nontrivial = acc.nt;
    rep.outcomes = acc.outcomes.clone();
    let mut viol: Vec<(String, String)> = acc.viol.iter().map(|(s, m)| (format!("flavour=checked {}", s), m.clone())).collect();
    let mut flavours = vec![json!({"flavour": "checked", "evaluations": acc.n})];
    match crate::checks::run_child_flavour("C17", tier) {
        Ok(v) => {
            rep.evaluations += v["evaluations"].as_u64().unwrap_or(0);
            rep.nontrivial += v["nontrivial"].as_u64().unwrap_or(0);
            flavours.push(json!({"flavour": "fast", "evaluations": v["evaluations"]}));
            if let Some(arr) = v["violations"].as_array() {
                for x in arr {
                    viol.push((format!("flavour=fast {}", x[0].as_str().unwrap_or("")), x[1].as_str().unwrap_or("").to_string()));
                }
            }
        }
        Err(e) => return Err(format!("fast-flavour child failed: {}", e)),
    }
    for (s, m) in viol {
        rep.violation(&s, &m, json!({"engine": "c17", "detail": m}));
    }
    rep.states = rep.evaluations;
    rep.transitions = rep.evaluations;
    rep.extra.insert("flavours".into(), json!(flavours));
    rep.extra.insert("trees_per_size".into(), json!((1..=5).map(|n| trees(n).len()).collect::<Vec<_>>()));
    rep.samples.push(json!(format!("{:?}", trees(4)[7])));
    rep.samples.push(json!({"open_port_sets": [5, 9], "port_time_pattern": "descending"}));
    Ok(rep.finish())
}
