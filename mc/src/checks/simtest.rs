//! Smoke test of the simulator + executor (not a property check).
use crate::eeprom::simple_io;
use crate::net::Net;
use crate::sim::{Device, Segment};

pub fn run() {
    let devs = vec![
        Device::new(simple_io(0x1001, &[8, 8], &[]).image()),
        Device::new(simple_io(0x1002, &[], &[8]).image()),
        Device::new(simple_io(0x1003, &[1, 1, 1, 1], &[16]).image()),
    ];
    let seg = Segment::new(devs);
    let mut net = Net::new(seg);
    let md = net.md();
    let t = std::time::Instant::now();
    let r = net.run(async move {
        let group = md.init_single_group::<8, 64>(|| 0).await?;
        println!("init ok: {} devices", group.len());
        let group = group.into_op(md).await?;
        for sd in group.iter(md) {
            println!(
                "  {:#06x} {} in {} out {}",
                sd.configured_address(),
                sd.name(),
                sd.inputs_raw().len(),
                sd.outputs_raw().len()
            );
        }
        let resp = group.tx_rx(md).await?;
        println!("tx_rx wkc {} states {:?}", resp.working_counter, resp.subdevice_states);
        Ok::<(), ethercrab::error::Error>(())
    });
    println!(
        "result {:?}; frames {} polls {} virtual {} us; wall {:?}; rx errors {:?}",
        r,
        net.frames,
        net.polls,
        crate::clock::now(),
        t.elapsed(),
        net.rx_errors
    );
}

#[derive(Default)]
struct G2 {
    first: ethercrab::SubDeviceGroup<2, 16>,
    main: ethercrab::SubDeviceGroup<8, 128>,
}

pub fn run2() {
    let devs = vec![
        Device::new(simple_io(0x0999, &[8, 8], &[8]).image()),
        Device::new(simple_io(0x1000, &[8], &[8]).image()),
    ];
    let mut seg = Segment::new(devs);
    seg.keep_logs = true;
    let mut net = Net::new(seg);
    let md = net.md();
    let r = net.run(async move {
        let groups = md
            .init::<16, _>(|| 0, G2::default(), |g, sd| {
                if sd.identity().product_id == 0x0999 { Ok(&g.first) } else { Ok(&g.main) }
            })
            .await?;
        let G2 { first, main } = groups;
        let first = first.into_op(md).await?;
        let main = main.into_op(md).await?;
        let r1 = first.tx_rx(md).await?;
        let r2 = main.tx_rx(md).await?;
        println!("first wkc {} main wkc {}", r1.working_counter, r2.working_counter);
        Ok::<(), ethercrab::error::Error>(())
    });
    println!("{:?}", r);
    let seg = net.seg.borrow();
    for f in seg.frame_log.iter().rev().take(4).rev() {
        for d in f {
            println!("cmd {} adp {:#06x} ado {:#06x} len {}", d.cmd, d.adp, d.ado, d.sent.len());
        }
    }
    for (i, d) in seg.devices.iter().enumerate() {
        println!("dev {} fmmus {:x?}", i, d.fmmus());
    }
}
