//! C04: every transmitted frame is a well-formed EtherCAT frame saying what was asked.
//!
//! Bounded-exhaustive enumeration of datagram push programs into frames of every size, each
//! executed on the real code (`alloc_frame` / `push_pdu` / `push_pdu_slice_rest` /
//! `mark_sendable` / `send_blocking`) and compared byte for byte with an independent encoder.

use crate::report::{Report, Tier};
use vx_sizes as sizes;
use ethercrab::error::PduError;
use ethercrab::verif as vf;
use ethercrab::{Command, PduLoop, PduTx, Reads, Writes};
use serde_json::json;
use std::collections::BTreeMap;
use std::panic::{catch_unwind, AssertUnwindSafe};
use std::time::Duration;

#[derive(Clone, Copy, Debug, PartialEq, Eq)]
enum Kind {
    Nop,
    Aprd,
    Apwr,
    Fprd,
    Fpwr,
    Brd,
    Bwr,
    Lrd,
    Lwr,
    Lrw,
    Frmw,
}

const KINDS: [Kind; 11] = [
    Kind::Nop,
    Kind::Aprd,
    Kind::Apwr,
    Kind::Fprd,
    Kind::Fpwr,
    Kind::Brd,
    Kind::Bwr,
    Kind::Lrd,
    Kind::Lwr,
    Kind::Lrw,
    Kind::Frmw,
];

const ADDR16: [(u16, u16); 4] = [(0, 0), (1, 0x0130), (0x1000, 0x0502), (0xffff, 0xffff)];
const ADDR32: [u32; 4] = [0, 1, 0x0001_0000, 0xffff_ffff];

/// Build the command through the crate's public constructors; return it with the expected wire
/// code and the expected four address bytes (computed here, independently).
fn command(kind: Kind, av: usize) -> (Command, u8, [u8; 4]) {
    let (a, r) = ADDR16[av % 4];
    let l = ADDR32[av % 4];
    let w16 = |adp: u16, ado: u16| {
        let mut b = [0u8; 4];
        b[..2].copy_from_slice(&adp.to_le_bytes());
        b[2..].copy_from_slice(&ado.to_le_bytes());
        b
    };
    match kind {
        Kind::Nop => (Command::Nop, 0x00, [0; 4]),
        // auto-increment: the position is negated on the wire
        Kind::Aprd => (Command::aprd(a, r).into(), 0x01, w16(0u16.wrapping_sub(a), r)),
        Kind::Apwr => (Command::apwr(a, r).into(), 0x02, w16(0u16.wrapping_sub(a), r)),
        Kind::Fprd => (Command::fprd(a, r).into(), 0x04, w16(a, r)),
        Kind::Fpwr => (Command::fpwr(a, r).into(), 0x05, w16(a, r)),
        Kind::Brd => (Command::brd(r).into(), 0x07, w16(0, r)),
        Kind::Bwr => (Command::bwr(r).into(), 0x08, w16(0, r)),
        Kind::Lrd => (Reads::Lrd { address: l }.into(), 0x0a, l.to_le_bytes()),
        Kind::Lwr => (Command::lwr(l).into(), 0x0b, l.to_le_bytes()),
        Kind::Lrw => (Command::lrw(l).into(), 0x0c, l.to_le_bytes()),
        Kind::Frmw => (Command::frmw(a, r).into(), 0x0e, w16(a, r)),
    }
}

#[derive(Clone, Copy, Debug, PartialEq, Eq)]
enum Step {
    /// push_pdu with `len` data bytes and a length override
    Push { kind: Kind, av: u8, len: usize, ov: Option<u16> },
    /// push_pdu_slice_rest with `len` bytes
    Rest { kind: Kind, av: u8, len: usize },
}

fn data_bytes(step_no: usize, len: usize) -> Vec<u8> {
    (0..len).map(|i| (step_no * 61 + i * 7 + 3) as u8 | 1).collect()
}

/// Reference model of a frame under construction.
struct RefFrame {
    cap: usize,
    pdus: Vec<(u8, [u8; 4], usize, Vec<u8>)>, // code, addr, declared len, data
    consumed: usize,
}

enum Expect {
    Accepted,
    TooLong,
    RestNone,
    RestSome(usize),
}

impl RefFrame {
    fn apply(&mut self, step_no: usize, st: &Step) -> Expect {
        match *st {
            Step::Push { kind, av, len, ov } => {
                let (_, code, addr) = command(kind, av as usize);
                let dl = match ov {
                    Some(o) => (o as usize).max(len),
                    None => len,
                };
                if self.consumed + dl + 12 > self.cap {
                    return Expect::TooLong;
                }
                self.pdus.push((code, addr, dl, data_bytes(step_no, len)));
                self.consumed += dl + 12;
                Expect::Accepted
            }
            Step::Rest { kind, av, len } => {
                let (_, code, addr) = command(kind, av as usize);
                if len == 0 {
                    return Expect::RestNone;
                }
                let room = self.cap.saturating_sub(self.consumed).saturating_sub(12);
                if room == 0 {
                    return Expect::RestNone;
                }
                let n = room.min(len);
                let d = data_bytes(step_no, len);
                self.pdus.push((code, addr, n, d[..n].to_vec()));
                self.consumed += n + 12;
                Expect::RestSome(n)
            }
        }
    }

    /// Expected Ethernet frame; datagram indices are taken from the observed frame (the property
    /// does not constrain their values, only that each datagram has one).
    fn encode(&self, observed: &[u8]) -> Vec<u8> {
        let mut f = vec![0xffu8; 6];
        f.extend_from_slice(&[0x10; 6]);
        f.extend_from_slice(&[0x88, 0xa4]);
        f.extend_from_slice(&(((self.consumed as u16) & 0x07ff) | 0x1000).to_le_bytes());
        for (k, (code, addr, dl, data)) in self.pdus.iter().enumerate() {
            let off = f.len();
            f.push(*code);
            f.push(observed.get(off + 1).copied().unwrap_or(0));
            f.extend_from_slice(addr);
            let more = if k + 1 < self.pdus.len() { 0x8000u16 } else { 0 };
            f.extend_from_slice(&((*dl as u16 & 0x07ff) | more).to_le_bytes());
            f.extend_from_slice(&[0, 0]);
            let mut d = data.clone();
            d.resize(*dl, 0);
            f.extend_from_slice(&d);
            f.extend_from_slice(&[0, 0]);
        }
        f
    }
}

struct Stats {
    programs: u64,
    nontrivial: u64,
    outcomes: BTreeMap<String, u64>,
    viol: Vec<(String, String, serde_json::Value)>,
}

fn run_program(
    data: usize,
    prog: &[Step],
    tx: &mut PduTx<'_>,
    pl: &PduLoop<'_>,
    st: &mut Stats,
) {
    st.programs += 1;
    let mut rf = RefFrame {
        cap: data - 16,
        pdus: Vec::new(),
        consumed: 0,
    };
    let mut bad: Option<(String, String)> = None;
    let mut refused = 0;
    let r = catch_unwind(AssertUnwindSafe(|| {
        let mut frame = match vf::alloc_frame(pl) {
            Ok(f) => f,
            Err(e) => return Some(("alloc-failed".to_string(), format!("{:?}", e))),
        };
        let mut bad: Option<(String, String)> = None;
        for (i, stp) in prog.iter().enumerate() {
            let exp = rf.apply(i, stp);
            match *stp {
                Step::Push { kind, av, len, ov } => {
                    let (cmd, _, _) = command(kind, av as usize);
                    let d = data_bytes(i, len);
                    let res = vf::push_pdu(&mut frame, cmd, d.as_slice(), ov);
                    match (&exp, &res) {
                        (Expect::Accepted, Ok(_)) => {}
                        (Expect::TooLong, Err(PduError::TooLong)) => refused += 1,
                        (Expect::Accepted, Err(e)) => {
                            bad = Some((
                                "fitting-datagram-refused".into(),
                                format!("step {} {:?}: datagram fits but push returned {:?}", i, stp, e),
                            ))
                        }
                        (Expect::TooLong, Ok(_)) => {
                            bad = Some((
                                "oversize-datagram-accepted".into(),
                                format!("step {} {:?}: datagram does not fit but push succeeded", i, stp),
                            ))
                        }
                        (_, r) => {
                            bad = Some((
                                "push-unexpected-result".into(),
                                format!("step {} {:?}: {:?}", i, stp, r.as_ref().map(|_| ()).map_err(|e| *e)),
                            ))
                        }
                    }
                    // can_push_pdu_payload must agree with what push does
                }
                Step::Rest { kind, av, len } => {
                    let (cmd, _, _) = command(kind, av as usize);
                    let d = data_bytes(i, len);
                    let res = vf::push_pdu_slice_rest(&mut frame, cmd, d.as_slice());
                    match (&exp, &res) {
                        (Expect::RestNone, Ok(None)) => refused += 1,
                        (Expect::RestSome(n), Ok(Some((m, _)))) if n == m => {}
                        (e, r) => {
                            let want = match e {
                                Expect::RestNone => "None".to_string(),
                                Expect::RestSome(n) => format!("Some({})", n),
                                _ => "?".into(),
                            };
                            bad = Some((
                                "fill-rest-wrong-count".into(),
                                format!(
                                    "step {} {:?}: expected {} bytes consumed, got {:?}",
                                    i,
                                    stp,
                                    want,
                                    r.as_ref().map(|o| o.as_ref().map(|x| x.0)).map_err(|e| *e)
                                ),
                            ))
                        }
                    }
                }
            }
            if bad.is_some() {
                break;
            }
        }
        if bad.is_some() {
            drop(frame);
            return bad;
        }
        if rf.pdus.is_empty() {
            // nothing accepted: nothing is sent (callers never mark an empty frame sendable)
            drop(frame);
            return None;
        }
        let fut = vf::mark_sendable(frame, pl, Duration::from_micros(100), 0);
        let mut sent: Vec<u8> = Vec::new();
        match tx.next_sendable_frame() {
            None => bad = Some(("frame-not-sendable".into(), "marked frame was not offered to the transmit side".into())),
            Some(f) => {
                let _ = f.send_blocking(|b| {
                    sent = b.to_vec();
                    Ok(b.len())
                });
            }
        }
        drop(fut);
        if bad.is_none() {
            let want = rf.encode(&sent);
            if sent.len() > data {
                bad = Some((
                    "frame-exceeds-configured-size".into(),
                    format!("transmitted {} bytes with frame size {}", sent.len(), data),
                ));
            } else if sent != want {
                let pos = sent.iter().zip(want.iter()).position(|(a, b)| a != b).unwrap_or(sent.len().min(want.len()));
                let field = if sent.len() != want.len() {
                    "length"
                } else if pos < 6 {
                    "destination"
                } else if pos < 12 {
                    "source"
                } else if pos < 14 {
                    "ethertype"
                } else if pos < 16 {
                    "ethercat-header"
                } else {
                    "datagram"
                };
                bad = Some((
                    format!("frame-differs-from-reference field={}", field),
                    format!(
                        "frame size {}: transmitted frame differs from the independent encoding at byte {} (got {:02x?}, want {:02x?})",
                        data,
                        pos,
                        &sent[..sent.len().min(64)],
                        &want[..want.len().min(64)]
                    ),
                ));
            }
        }
        bad
    }));
    match r {
        Ok(b) => bad = b,
        Err(p) => bad = Some(("panic".into(), format!("panicked: {}", crate::e1::panic_msg(&p)))),
    }
    let key = format!("{} datagrams, {} refused", rf.pdus.len().min(3), refused.min(3));
    *st.outcomes.entry(key).or_insert(0) += 1;
    if rf.pdus.len() >= 2 || refused > 0 {
        st.nontrivial += 1;
    }
    if let Some((sig, msg)) = bad {
        if !st.viol.iter().any(|v| v.0 == sig) {
            st.viol.push((
                sig,
                format!("{} [frame size {}, program {:?}]", msg, data, prog),
                json!({"engine": "c04", "frame_size": data, "program": prog.iter().map(|s| format!("{:?}", s)).collect::<Vec<_>>()}),
            ));
        }
    }
}

/// Step alphabet for a frame with `rem` bytes of datagram area left.
fn steps_for(rem: usize, step_no: usize, full_cmds: bool) -> Vec<Step> {
    let mut v = Vec::new();
    let room = rem.saturating_sub(12); // largest payload that still fits
    let mut lens: Vec<usize> = vec![0, 1, 2, room.saturating_sub(1), room, room + 1, room + 12];
    lens.sort();
    lens.dedup();
    let kinds: Vec<(Kind, u8)> = if full_cmds {
        KINDS.iter().flat_map(|k| (0..4u8).map(move |a| (*k, a))).collect()
    } else {
        // commands are data-independent w.r.t. the length logic: rotate through all 11 kinds and
        // all address variants by position instead of taking the product
        (0..3)
            .map(|j| {
                let x = step_no * 3 + j;
                (KINDS[x % 11], ((x / 11) % 4) as u8)
            })
            .collect()
    };
    for (kind, av) in &kinds {
        for &len in &lens {
            let mut ovs: Vec<Option<u16>> = vec![None];
            if len > 0 {
                ovs.push(Some((len - 1) as u16));
            }
            ovs.push(Some(len as u16));
            if len + 3 <= room {
                ovs.push(Some((len + 3) as u16));
            }
            ovs.push(Some((room + 1) as u16));
            ovs.push(Some(0xffff));
            for ov in ovs {
                v.push(Step::Push { kind: *kind, av: *av, len, ov });
            }
        }
    }
    let mut rlens: Vec<usize> = vec![0, 1, room.saturating_sub(1), room, room + 1, 2 * rem.max(1)];
    rlens.sort();
    rlens.dedup();
    for (kind, av) in kinds.iter().take(if full_cmds { 44 } else { 2 }) {
        for &len in &rlens {
            v.push(Step::Rest { kind: *kind, av: *av, len });
        }
    }
    v
}

fn enumerate(data: usize, depth: usize, tx: &mut PduTx<'_>, pl: &PduLoop<'_>, st: &mut Stats) {
    let cap = data - 16;
    // depth 1 with the full command x address product
    for s in steps_for(cap, 0, true) {
        run_program(data, &[s], tx, pl, st);
    }
    // deeper programs
    fn rec(
        data: usize,
        prog: &mut Vec<Step>,
        consumed: usize,
        depth: usize,
        tx: &mut PduTx<'_>,
        pl: &PduLoop<'_>,
        st: &mut Stats,
    ) {
        let cap = data - 16;
        let rem = cap.saturating_sub(consumed);
        for s in steps_for(rem, prog.len(), false) {
            prog.push(s);
            if prog.len() >= 2 {
                run_program(data, prog, tx, pl, st);
            }
            if prog.len() < depth {
                // consumed after this step according to the reference model
                let mut rf = RefFrame { cap, pdus: Vec::new(), consumed: 0 };
                for (i, p) in prog.iter().enumerate() {
                    rf.apply(i, p);
                }
                rec(data, prog, rf.consumed, depth, tx, pl, st);
            }
            prog.pop();
        }
    }
    if depth >= 2 {
        let mut prog = Vec::new();
        rec(data, &mut prog, 0, depth, tx, pl, st);
    }
}

pub fn c04(tier: &Tier) -> Result<i32, String> {
    let mut rep = Report::new("C04", "exploration", tier);
    rep.rule = "for every frame size in the stated set, every push program up to the stated depth over the alphabet {push_pdu with payload length in {0,1,2,room-1,room,room+1,room+12} and length override in {none,len-1,len,len+3,room+1,0xffff}; push_pdu_slice_rest with {0,1,room-1,room,room+1,2*remaining} bytes}; all 11 command kinds x 4 address variants as a full product at depth 1 and rotated by position at depth >= 2 (the length logic never inspects the command); each program is built and transmitted by the real code and compared byte for byte with an independent encoder; non-trivial = program with at least two accepted datagrams or at least one refused push".into();
    rep.assumptions = vec![
        "datagram index values are not constrained by the property; the reference takes them from the observed frame".into(),
        "payload bytes are position tagged and non-zero (so missing zero padding and stale bytes are visible); the code copies payloads without inspecting them".into(),
        "frames with no accepted datagram are never marked sendable (callers always push first)".into(),
        "frame sizes above 1514 are outside the enumerated set".into(),
    ];
    let sizes_d2: Vec<usize>;
    let sizes_d3: Vec<usize>;
    if tier.thorough {
        sizes_d2 = (sizes::MIN..=sizes::MAX).collect();
        sizes_d3 = (28..=200).chain([256, 512, 1100, 1513, 1514]).collect();
    } else {
        sizes_d2 = (28..=160).chain([256, 512, 1100, 1514]).collect();
        sizes_d3 = (28..=72).step_by(1).chain([100, 128]).collect();
    }
    let mut jobs: Vec<(usize, usize)> = Vec::new();
    for s in &sizes_d2 {
        jobs.push((*s, if sizes_d3.contains(s) { 3 } else { 2 }));
    }
    let workers = crate::core::workers();
    let next = std::sync::atomic::AtomicUsize::new(0);
    let outs: Vec<Stats> = std::thread::scope(|s| {
        let hs: Vec<_> = (0..workers)
            .map(|_| {
                let jobs = &jobs;
                let next = &next;
                s.spawn(move || {
                    let mut st = Stats { programs: 0, nontrivial: 0, outcomes: BTreeMap::new(), viol: Vec::new() };
                    loop {
                        let i = next.fetch_add(1, std::sync::atomic::Ordering::SeqCst);
                        if i >= jobs.len() {
                            break;
                        }
                        let (data, depth) = jobs[i];
                        sizes::with_storage(data, &mut |mut tx, _rx, pl| {
                            enumerate(data, depth, &mut tx, &pl, &mut st);
                        });
                    }
                    st
                })
            })
            .collect();
        hs.into_iter().map(|h| h.join().expect("c04 worker")).collect()
    });
    for st in outs {
        rep.evaluations += st.programs;
        rep.nontrivial += st.nontrivial;
        for (k, v) in st.outcomes {
            *rep.outcomes.entry(k).or_insert(0) += v;
        }
        for (sig, msg, replay) in st.viol {
            rep.violation(&sig, &msg, replay);
        }
    }
    rep.states = rep.evaluations;
    rep.transitions = rep.evaluations;
    rep.extra.insert("frame_sizes_depth2".into(), json!(format!("{} sizes: {}..={} {}", sizes_d2.len(), sizes_d2[0], sizes_d2[sizes_d2.len().min(133) - 1], if tier.thorough { "(all 28..=1514)" } else { "+ 256, 512, 1100, 1514" })));
    rep.extra.insert("frame_sizes_depth3".into(), json!(sizes_d3.len()));
    rep.samples.push(json!({"frame_size": 64, "program": ["Push{Fprd av1 len=2 ov=None}", "Rest{Lrw av2 len=2*remaining}"], "note": "programs are enumerated, executed and compared; see rule"}));
    rep.samples.push(json!(format!("{:?}", steps_for(48, 1, false).iter().take(6).collect::<Vec<_>>())));
    let _ = Writes::Lrw { address: 0 };
    Ok(rep.finish())
}
