//! C18: DC sync set-up and per-cycle timing arithmetic are exact and total.

use crate::checks::c13::Acc;
use crate::eeprom::simple_io;
use crate::net::{Net, Stop};
use crate::report::{Report, Tier};
use crate::sim::{Device, Segment};
use ethercrab::error::Error;
use ethercrab::subdevice_group::DcConfiguration;
use ethercrab::DcSync;
use serde_json::json;
use std::time::Duration;

const NS: [u64; 8] = [1, 2, 999, 1000, 1 << 31, (1 << 32) - 1, 1 << 32, (1 << 32) + 1];

fn ref_times(p: u64) -> Vec<u64> {
    let mut v = vec![0u64, 1, p.saturating_sub(1), p, p + 1, 1 << 32, 1 << 63, u64::MAX - (1 << 32), u64::MAX - 1, u64::MAX];
    v.extend([p * 3 + p / 2, (u64::MAX / p.max(1)) * p.max(1), ((u64::MAX / p.max(1)) * p.max(1)).saturating_sub(1)]);
    v.sort();
    v.dedup();
    v
}

/// support level: 0 none, 1 ref only, 2 32 bit, 3 64 bit; 4 and 5: no DC ('DC supported' flag of
/// register 0x0008 clear), but the 'enhanced DC sync' resp. the '64 bit' flag is set nevertheless.
/// sync: 0 disabled, 1 sync0, 2 sync0+1
fn has_dc(sup: u8) -> bool {
    (1..=3).contains(&sup)
}

#[derive(Clone, Debug)]
struct Setup {
    support: Vec<u8>,
    sync: Vec<u8>,
    period: u64,
    delay: u64,
    shift: u64,
    ref_time: u64,
}

fn make_net(s: &Setup) -> Net {
    let mut devs = Vec::new();
    for (i, sup) in s.support.iter().enumerate() {
        let mut d = Device::new(simple_io(0x6000 + i as u32, &[8], &[8]).image());
        d.dc.supported = has_dc(*sup);
        d.dc.enhanced = *sup == 2 || *sup == 3 || *sup == 4;
        d.dc.bits64 = *sup == 3 || *sup == 5;
        d.dc.systime_override = Some(s.ref_time);
        devs.push(d);
    }
    Net::new(Segment::new(devs))
}

fn u64_at(data: &[u8]) -> u64 {
    let mut b = [0u8; 8];
    let n = data.len().min(8);
    b[..n].copy_from_slice(&data[..n]);
    u64::from_le_bytes(b)
}

fn run_setup(acc: &mut Acc, s: &Setup, cycle_times: &[u64]) {
    let n = s.support.len();
    let mut net = make_net(s);
    let md = net.md();
    let sync = s.sync.clone();
    let conf = DcConfiguration {
        start_delay: Duration::from_nanos(s.delay),
        sync0_period: Duration::from_nanos(s.period),
        sync0_shift: Duration::from_nanos(s.shift),
    };
    acc.n += 1;
    acc.nt += 1;
    let ctx = format!("{:?}", s);
    // bring up to PRE-OP + PDI, clear write logs, configure
    let pre = net.run(async move {
        let mut g = md.init_single_group::<4, 16>(|| 777).await?;
        for (i, mut sd) in g.iter_mut(md).enumerate() {
            sd.set_dc_sync(match sync[i] {
                0 => DcSync::Disabled,
                1 => DcSync::Sync0,
                _ => DcSync::Sync01 { sync1_period: Duration::from_nanos(12_345) },
            });
        }
        g.into_pre_op_pdi(md).await
    });
    let g = match pre {
        Ok(Ok(g)) => g,
        o => {
            acc.v("setup-failed", format!("{:?} [{}]", o.map(|r| r.map(|_| ())), ctx));
            return;
        }
    };
    for d in net.seg.borrow_mut().devices.iter_mut() {
        d.writes.clear();
    }
    let r = net.run(async move { g.configure_dc_sync(md, conf).await });
    let has_ref = s.support.iter().any(|x| has_dc(*x));
    let in_range = s.period <= u64::from(u32::MAX) && s.delay <= u64::from(u32::MAX);
    let g = match r {
        Ok(Ok(g)) => {
            if !has_ref {
                acc.v("no-reference-accepted", format!("configure_dc_sync succeeded on a network without any DC SubDevice [{}]", ctx));
            }
            if !in_range {
                acc.v("out-of-range-accepted", format!("period {} / delay {} ns beyond 32 bits was accepted [{}]", s.period, s.delay, ctx));
            }
            *acc.outcomes.entry("configured".into()).or_insert(0) += 1;
            g
        }
        Ok(Err(e)) => {
            *acc.outcomes.entry(format!("config error {}", format!("{:?}", e).chars().take(24).collect::<String>())).or_insert(0) += 1;
            // when reference time + delay does not fit the 64-bit start time register no valid
            // start time exists: an error is the right answer
            let overflow = s.ref_time.checked_add(s.delay).is_none();
            if has_ref && in_range && !overflow {
                acc.v("valid-configuration-rejected", format!("configure_dc_sync failed with {:?} [{}]", e, ctx));
            }
            return;
        }
        Err(Stop::Panic(p)) => {
            let overflow = s.ref_time.checked_add(s.delay).is_none();
            acc.v(
                &format!("panic configure_dc_sync{}", if overflow { " ref+delay-overflows-u64" } else { "" }),
                format!("{} [{}]", p, ctx),
            );
            return;
        }
        Err(st) => {
            acc.v("configure-did-not-finish", format!("{:?} [{}]", st, ctx));
            return;
        }
    };
    // ---- register effects ------------------------------------------------------------------------
    {
        let seg = net.seg.borrow();
        for i in 0..n {
            let d = &seg.devices[i];
            let wants = has_dc(s.support[i]) && s.sync[i] > 0;
            let dc_writes: Vec<&crate::sim::WriteRec> = d.writes.iter().filter(|w| (0x0980..0x09b0).contains(&w.addr)).collect();
            if !wants {
                if !dc_writes.is_empty() {
                    acc.v(
                        &format!("sync-written-to-device-that-did-not-ask support={} sync={}", s.support[i], s.sync[i]),
                        format!("device {} (support {}, sync {}) received DC sync writes {:x?} [{}]", i, s.support[i], s.sync[i], dc_writes.iter().map(|w| w.addr).collect::<Vec<_>>(), ctx),
                    );
                }
                continue;
            }
            let last = |addr: u16| d.writes.iter().rev().find(|w| w.addr == addr).map(|w| w.data.clone());
            // start time
            match last(0x0990) {
                None => acc.v("start-time-not-written", format!("device {} got no SYNC0 start time [{}]", i, ctx)),
                Some(data) => {
                    let st = u128::from(u64_at(&data));
                    let p = u128::from(s.period);
                    let hi = u128::from(s.ref_time) + u128::from(s.delay);
                    let ok = st % p == 0 && st <= hi && st + p > hi;
                    if !ok {
                        let wraps = hi > u128::from(u64::MAX);
                        acc.v(
                            &format!("start-time-wrong{}", if wraps { " ref+delay-overflows-u64" } else { "" }),
                            format!("device {}: SYNC0 start time {} is not the multiple of {} in ({} - period, {}] [{}]", i, st, p, hi, hi, ctx),
                        );
                    }
                }
            }
            match last(0x09a0) {
                Some(data) if u64_at(&data) & 0xffff_ffff == s.period => {}
                other => acc.v("sync0-cycle-wrong", format!("device {}: SYNC0 cycle time written {:x?}, expected {} [{}]", i, other, s.period, ctx)),
            }
            let want_act = if s.sync[i] == 2 { 0x07u8 } else { 0x03 };
            match last(0x0981) {
                Some(data) if data.first() == Some(&want_act) => {}
                other => acc.v("activation-wrong", format!("device {}: activation register written {:x?}, expected {:#04x} [{}]", i, other, want_act, ctx)),
            }
            if s.sync[i] == 2 {
                match last(0x09a4) {
                    Some(data) if u64_at(&data) & 0xffff_ffff == 12_345 => {}
                    other => acc.v("sync1-cycle-wrong", format!("device {}: SYNC1 cycle time written {:x?}, expected 12345 [{}]", i, other, ctx)),
                }
            } else if last(0x09a4).is_some() {
                acc.v("sync1-written-without-request", format!("device {} got a SYNC1 cycle time without asking for SYNC1 [{}]", i, ctx));
            }
        }
    }
    // ---- per-cycle arithmetic ----------------------------------------------------------------------
    let g = match net.run(async move { g.into_op(md).await }) {
        Ok(Ok(g)) => g,
        o => {
            acc.v("into-op-failed", format!("{:?} [{}]", o.map(|r| r.map(|_| ())), ctx));
            return;
        }
    };
    for &t in cycle_times {
        for d in net.seg.borrow_mut().devices.iter_mut() {
            d.dc.systime_override = Some(t);
        }
        let gref = &g;
        acc.n += 1;
        acc.nt += 1;
        let r = net.run(async move { gref.tx_rx_dc(md).await.map(|r| r.extra) });
        match r {
            Ok(Ok(ci)) => {
                let p = u128::from(s.period);
                let off = u128::from(t) % p;
                let wait = (p - off) + u128::from(s.shift);
                if ci.dc_system_time != t {
                    acc.v("cycle-time-not-reported", format!("reference returned {} but the cycle reports {} [{}]", t, ci.dc_system_time, ctx));
                }
                if ci.cycle_start_offset.as_nanos() != off {
                    acc.v("cycle-offset-wrong", format!("t = {}, period {}: offset {} reported, expected {} [{}]", t, p, ci.cycle_start_offset.as_nanos(), off, ctx));
                }
                if ci.next_cycle_wait.as_nanos() != wait {
                    acc.v("cycle-wait-wrong", format!("t = {}, period {}, shift {}: wait {} reported, expected {} [{}]", t, p, s.shift, ci.next_cycle_wait.as_nanos(), wait, ctx));
                }
            }
            Ok(Err(e)) => acc.v("cycle-failed", format!("tx_rx_dc with t = {}: {:?} [{}]", t, e, ctx)),
            Err(Stop::Panic(pn)) => {
                acc.v("panic tx_rx_dc", format!("tx_rx_dc with t = {} panicked: {} [{}]", t, pn, ctx));
                return;
            }
            Err(st) => acc.v("cycle-did-not-finish", format!("{:?} [{}]", st, ctx)),
        }
    }
    let _ = Error::Internal;
}

pub fn enumerate(thorough: bool) -> Acc {
    let mut acc = Acc::new();
    // (A) every support x sync assignment for 1..=N devices, fixed valid timing
    let nmax = if thorough { 4 } else { 3 };
    for n in 1..=nmax {
        let combos = 18usize.pow(n as u32);
        for c in 0..combos {
            let mut support = Vec::new();
            let mut sync = Vec::new();
            let mut x = c;
            for _ in 0..n {
                support.push((x % 6) as u8);
                x /= 6;
                sync.push((x % 3) as u8);
                x /= 3;
            }
            let s = Setup { support, sync, period: 1_000_000, delay: 5_000_000, shift: 250_000, ref_time: 123_456_789_012 };
            run_setup(&mut acc, &s, &[123_456_789_999]);
        }
    }
    // (B) timing alphabet on a two-device group (reference + one 64-bit SYNC0 device)
    for &period in &NS {
        for &delay in &NS {
            for &shift in &[1u64, 1000, (1 << 32) - 1, 1 << 32] {
                let times = ref_times(period.min(u64::from(u32::MAX)).max(1));
                for (k, &rt) in times.iter().enumerate() {
                    if !thorough && k % 2 == 1 && delay != 1000 {
                        continue;
                    }
                    let s = Setup { support: vec![3, 2], sync: vec![1, 2], period, delay, shift, ref_time: rt };
                    run_setup(&mut acc, &s, &times);
                }
            }
        }
    }
    acc
}

pub fn c18(tier: &Tier, child: bool) -> Result<i32, String> {
    let acc = enumerate(tier.thorough);
    if child {
        let out = json!({"evaluations": acc.n, "nontrivial": acc.nt, "outcomes": acc.outcomes, "violations": acc.viol});
        println!("CHILD-RESULT {}", out);
        return Ok(0);
    }
    let mut rep = Report::new("C18", "exploration", tier);
    rep.rule = "(A) every assignment of DC support level {none, reference only, 32 bit, 64 bit, no DC with the enhanced-sync flag set, no DC with the 64-bit flag set} x DcSync {disabled, SYNC0, SYNC0+SYNC1} to groups of 1..=3 SubDevices (4 in the thorough tier), including networks without any reference clock; (B) SYNC0 period and start delay from {1, 2, 999, 1000, 2^31, 2^32-1, 2^32, 2^32+1} ns, shift from {1, 1000, 2^32-1, 2^32} ns, reference times from {0, 1, p-1, p, p+1, 2^32, 2^63, u64::MAX-2^32, u64::MAX-1, u64::MAX, multiples of p near u64::MAX}; the oracle reads the simulator's register write log and recomputes start time, cycle offset and wait in 128-bit arithmetic; every reference time is also used as the per-cycle time of tx_rx_dc; with and without overflow checks; non-trivial = every configuration and every cycle".into();
    rep.assumptions = vec![
        "the simulated reference clock returns exactly the chosen time on every read of the system time register".into(),
        "period 0 is outside the quantifier".into(),
    ];
    rep.evaluations = acc.n;
    rep.nontrivial = acc.nt;
    rep.outcomes = acc.outcomes.clone();
    let mut viol: Vec<(String, String)> = acc.viol.iter().map(|(s, m)| (format!("flavour=checked {}", s), m.clone())).collect();
    let mut flavours = vec![json!({"flavour": "checked", "evaluations": acc.n})];
    match crate::checks::run_child_flavour("C18", tier) {
        Ok(v) => {
            rep.evaluations += v["evaluations"].as_u64().unwrap_or(0);
            rep.nontrivial += v["nontrivial"].as_u64().unwrap_or(0);
            flavours.push(json!({"flavour": "fast", "evaluations": v["evaluations"]}));
            if let Some(arr) = v["violations"].as_array() {
                for x in arr {
                    viol.push((format!("flavour=fast {}", x[0].as_str().unwrap_or("")), x[1].as_str().unwrap_or("").to_string()));
                }
            }
        }
        Err(e) => return Err(format!("fast-flavour child failed: {}", e)),
    }
    for (s, m) in viol {
        rep.violation(&s, &m, json!({"engine": "c18", "detail": m}));
    }
    rep.states = rep.evaluations;
    rep.transitions = rep.evaluations;
    rep.extra.insert("flavours".into(), json!(flavours));
    rep.samples.push(json!({"support": [3, 2], "sync": [1, 2], "period_ns": 4294967295u64, "delay_ns": 1000, "shift_ns": 1, "ref_time": "u64::MAX - 1"}));
    rep.samples.push(json!({"support": [0, 1, 3], "sync": [1, 0, 2], "period_ns": 1000000}));
    Ok(rep.finish())
}
