//! C13: no EEPROM content can hang or crash the MainDevice.

use crate::eeprom::{Cat, DeviceDesc, PdoDesc, SmDesc};
use crate::memeeprom::{block_on_ready, MemEeprom};
use crate::report::{Report, Tier};
use ethercrab::verif::VerifEeprom;
use serde_json::json;
use std::collections::BTreeMap;
use std::panic::{catch_unwind, AssertUnwindSafe};

/// 2 x (words in the 16-bit address space) + slack
const BUDGET: u64 = 2 * 65536 + 4096;

pub struct Acc {
    pub n: u64,
    pub nt: u64,
    pub outcomes: BTreeMap<String, u64>,
    pub viol: Vec<(String, String)>,
}

impl Acc {
    pub fn new() -> Self {
        Acc { n: 0, nt: 0, outcomes: BTreeMap::new(), viol: Vec::new() }
    }
    pub fn v(&mut self, sig: &str, msg: String) {
        if !self.viol.iter().any(|x| x.0 == sig) {
            self.viol.push((sig.to_string(), msg));
        }
    }
}

pub const QUERIES: [&str; 13] = [
    "identity", "device_name", "device_description", "size", "mailbox_config", "general", "sync_managers", "fmmus",
    "fmmu_mappings", "tx_pdos", "rx_pdos", "find_string", "station_alias",
];

fn panic_site(msg: &str) -> String {
    // keep the kind of arithmetic/indexing failure, drop variable numbers
    let m: String = msg.chars().map(|c| if c.is_ascii_digit() { '#' } else { c }).collect();
    m.chars().take(60).collect()
}

/// Run every query on `img`. Each query gets its own access budget.
pub fn run_queries(acc: &mut Acc, img: &[u8], chunk: usize, what: &str) {
    for q in QUERIES {
        let idxs: Vec<u8> = if q == "find_string" { vec![0, 1, 2, 3, 4, 255] } else { vec![0] };
        for idx in idxs {
            let p = MemEeprom::new(img.to_vec(), chunk, BUDGET);
            let e = VerifEeprom::new(p.clone());
            acc.n += 1;
            acc.nt += 1;
            let r = catch_unwind(AssertUnwindSafe(|| -> Result<String, String> {
                let s = match q {
                    "identity" => block_on_ready(e.identity())?.map(|_| ()).map_err(|e| format!("{:?}", e)),
                    "device_name" => block_on_ready(e.device_name())?.map(|_| ()).map_err(|e| format!("{:?}", e)),
                    "device_description" => block_on_ready(e.device_description())?.map(|_| ()).map_err(|e| format!("{:?}", e)),
                    "size" => block_on_ready(e.size())?.map(|_| ()).map_err(|e| format!("{:?}", e)),
                    "mailbox_config" => block_on_ready(e.mailbox_config())?.map(|_| ()).map_err(|e| format!("{:?}", e)),
                    "general" => block_on_ready(e.general())?.map(|_| ()).map_err(|e| format!("{:?}", e)),
                    "sync_managers" => block_on_ready(e.sync_managers())?.map(|_| ()).map_err(|e| format!("{:?}", e)),
                    "fmmus" => block_on_ready(e.fmmus())?.map(|_| ()).map_err(|e| format!("{:?}", e)),
                    "fmmu_mappings" => block_on_ready(e.fmmu_mappings())?.map(|_| ()).map_err(|e| format!("{:?}", e)),
                    "tx_pdos" => block_on_ready(e.pdos(true))?.map(|_| ()).map_err(|e| format!("{:?}", e)),
                    "rx_pdos" => block_on_ready(e.pdos(false))?.map(|_| ()).map_err(|e| format!("{:?}", e)),
                    "find_string" => block_on_ready(e.find_string::<64>(idx))?.map(|_| ()).map_err(|e| format!("{:?}", e)),
                    _ => block_on_ready(e.station_alias())?.map(|_| ()).map_err(|e| format!("{:?}", e)),
                };
                Ok(match s {
                    Ok(()) => "value-or-absent".to_string(),
                    Err(e) => format!("error {}", e.chars().take(24).collect::<String>()),
                })
            }));
            match r {
                Ok(Ok(o)) => {
                    if p.exhausted() {
                        acc.v(
                            &format!("no-termination-within-budget query={}", q),
                            format!("{} did not finish within {} device accesses [{} ; chunk {}]", q, BUDGET, what, chunk),
                        );
                    } else {
                        *acc.outcomes.entry(format!("{} {}", q, o.split(' ').next().unwrap_or(""))).or_insert(0) += 1;
                    }
                }
                Ok(Err(m)) => acc.v("machinery", m),
                Err(pn) => {
                    let m = crate::e1::panic_msg(&pn);
                    acc.v(
                        &format!("panic query={} {}", q, panic_site(&m)),
                        format!("{} panicked: {} [{} ; chunk {}]", q, m, what, chunk),
                    );
                }
            }
        }
    }
}

fn put16(img: &mut Vec<u8>, word: usize, v: u16) {
    if img.len() < word * 2 + 2 {
        img.resize(word * 2 + 2, 0xff);
    }
    img[word * 2..word * 2 + 2].copy_from_slice(&v.to_le_bytes());
}

pub fn wellformed() -> Vec<(String, DeviceDesc)> {
    let mut v = Vec::new();
    let mut a = crate::eeprom::simple_io(0x1111, &[8, 8], &[16]);
    a.size_kbit = 2;
    v.push(("simple io".to_string(), a));
    let mut b = crate::eeprom::simple_io(0x2222, &[1, 1, 1, 1, 4], &[8, 8, 8]);
    b.mailbox = Some(crate::eeprom::MailboxDesc { rx_offset: 0x1800, rx_size: 128, tx_offset: 0x1c00, tx_size: 128, protocols: 0x04 });
    b.fmmu_ex = vec![0, 1];
    b.order = vec![Cat::General, Cat::Strings, Cat::Vendor(0x0800, 2), Cat::SyncM, Cat::Fmmu, Cat::FmmuEx, Cat::RxPdo, Cat::TxPdo];
    b.size_kbit = 2;
    v.push(("mailbox device, categories reordered".to_string(), b));
    let mut c = crate::eeprom::simple_io(0x3333, &[], &[]);
    c.strings = vec![vec![b'x'; 63], vec![0xb5; 5], vec![]];
    c.sms = (0..4).map(|k| SmDesc { start: 0x1000 + 0x100 * k, len: 16, control: 0x20, enable: 1, usage: (k + 1) as u8 }).collect();
    c.order = vec![Cat::Strings, Cat::General, Cat::SyncM];
    c.size_kbit = 2;
    v.push(("strings and sync managers only".to_string(), c));
    v
}

fn adversarial() -> Vec<(String, Vec<u8>)> {
    let mut v: Vec<(String, Vec<u8>)> = Vec::new();
    for len in [0usize, 2, 128, 256, 2048] {
        v.push((format!("blank 0x00 x {}", len), vec![0u8; len]));
        v.push((format!("blank 0xff x {}", len), vec![0xffu8; len]));
    }
    let base = wellformed();
    // truncated at every category boundary (and in the middle of headers)
    for (name, d) in &base {
        let img = d.image();
        let mut off = 128usize;
        let mut cuts = vec![128usize, 130, 132];
        while off + 4 <= img.len() {
            let ty = u16::from_le_bytes([img[off], img[off + 1]]);
            if ty == 0xffff {
                break;
            }
            let l = u16::from_le_bytes([img[off + 2], img[off + 3]]) as usize;
            off += 4 + l * 2;
            cuts.extend([off.saturating_sub(2), off, off + 2]);
        }
        for c in cuts {
            let mut t = img.clone();
            t.truncate(c.min(img.len()));
            v.push((format!("{} truncated at byte {}", name, c), t));
        }
    }
    // category length words at every position of a chain of depth <= 3
    let lens = [0u16, 1, 0x7fff, 0x8000, 0xfffd, 0xfffe, 0xffff];
    let types = [10u16, 30, 41, 50];
    for depth in 1..=3usize {
        for pos in 0..depth {
            for l in lens {
                for (ti, ty) in types.iter().enumerate() {
                    let mut img = vec![0u8; 128];
                    let mut w = 0x40usize;
                    for k in 0..depth {
                        let this_len: u16 = if k == pos { l } else { 2 };
                        put16(&mut img, w, types[(ti + k) % types.len()]);
                        put16(&mut img, w + 1, this_len);
                        if k != pos {
                            put16(&mut img, w + 2, 0x0101);
                            put16(&mut img, w + 3, 0x0202);
                            w += 4;
                        } else {
                            w += 2;
                        }
                    }
                    put16(&mut img, w, 0xffff);
                    let _ = ty;
                    v.push((format!("chain depth {} length {:#06x} at position {} type set {}", depth, l, pos, ti), img));
                }
            }
        }
    }
    // chains that wrap around the 16-bit word address space back onto themselves
    for l in [0xfffeu16, 0xfffc, 0xffbe, 0xffbc, 0x7fde, 0x7fdf] {
        let mut img = vec![0u8; 128];
        put16(&mut img, 0x40, 20); // a category nobody asks for
        put16(&mut img, 0x41, l);
        v.push((format!("wrap-to-self: category of {:#06x} words at 0x40", l), img.clone()));
        let mut img2 = vec![0u8; 0x20000];
        for w in (0x40..0xfff0usize).step_by(0x100) {
            put16(&mut img2, w, 20);
            put16(&mut img2, w + 1, 0xfe);
        }
        v.push((format!("endless chain of unknown categories ({:#06x})", l), img2));
    }
    // categories of every known type whose header sits just below the top of the 16-bit byte / word address
    // space (reached through one unknown category), with data that claims more than the space holds
    for w in [0x7feeusize, 0x7ff0, 0x7ff8, 0xffee, 0xfff0, 0xfff8] {
        for ty in [10u16, 30, 40, 41, 42, 50, 51] {
            for len in [0x0100u16, 0x7fff] {
                for fill in 0..3 {
                    let mut img = vec![0u8; 0x20000];
                    put16(&mut img, 0x40, 20);
                    put16(&mut img, 0x41, (w - 0x42) as u16);
                    put16(&mut img, w, ty);
                    put16(&mut img, w + 1, len);
                    let b = if fill == 1 { 0x05 } else { 0xff };
                    for x in img[(w + 2) * 2..].iter_mut() {
                        *x = b;
                    }
                    if fill == 2 {
                        img[(w + 2) * 2] = 5;
                    }
                    v.push((format!("category {} of {:#06x} words at word {:#06x}, top of the address space, fill {}", ty, len, w, fill), img));
                }
            }
        }
    }
    // size word
    for sw in [510u16, 511, 512, 0xffff] {
        let mut img = base[0].1.image();
        put16(&mut img, 0x3e, sw);
        v.push((format!("size word {}", sw), img));
    }
    // strings: index = count, count + 1; string length overrunning the category
    {
        let mut d = base[0].1.clone();
        d.general.as_mut().unwrap().order_idx = d.strings.len() as u8 + 1;
        v.push(("name index one past the string table".into(), d.image()));
        d.general.as_mut().unwrap().order_idx = d.strings.len() as u8 + 2;
        v.push(("name index two past the string table".into(), d.image()));
        let mut img = base[0].1.image();
        // first string's length byte -> 255
        img[128 + 4 + 1] = 255;
        v.push(("string length overruns its category".into(), img));
        let mut img = base[0].1.image();
        img[128 + 4] = 255; // claims 255 strings
        v.push(("string count 255".into(), img));
    }
    // PDO extremes
    {
        let mut d = base[0].1.clone();
        d.rx_pdos = vec![PdoDesc { index: 0x1600, sm: 0, entries: vec![255; 255] }];
        d.size_kbit = 64;
        v.push(("255 entries of 255 bits".into(), d.image()));
        let mut d = base[0].1.clone();
        d.rx_pdos = vec![PdoDesc { index: 0x1600, sm: 0, entries: vec![255; 255] }, PdoDesc { index: 0x1601, sm: 0, entries: vec![255; 255] }];
        d.tx_pdos = vec![PdoDesc { index: 0x1a00, sm: 1, entries: vec![255; 200] }, PdoDesc { index: 0x1a01, sm: 1, entries: vec![255; 200] }];
        d.size_kbit = 128;
        v.push(("two PDOs of 255 x 255 bits on one sync manager".into(), d.image()));
        let mut d = base[0].1.clone();
        d.tx_pdos = (0..65).map(|k| PdoDesc { index: 0x1a00 + k, sm: 1, entries: vec![8] }).collect();
        d.size_kbit = 16;
        v.push(("65 PDOs".into(), d.image()));
        let mut d = base[0].1.clone();
        d.tx_pdos = vec![PdoDesc { index: 0x1a00, sm: 1, entries: vec![8, 8] }];
        let mut img = d.image();
        // claim more entries than the category holds
        if let Some(p) = img.windows(2).position(|w| w == [0x00, 0x1a]) {
            img[p + 2] = 200;
        }
        v.push(("PDO claims 200 entries".into(), img));
        let mut d = base[0].1.clone();
        d.sms = (0..9).map(|k| SmDesc { start: 0x1000 + 0x10 * k, len: 1, control: 0, enable: 1, usage: 3 }).collect();
        v.push(("9 sync managers".into(), d.image()));
        let mut d = base[0].1.clone();
        d.fmmus = vec![1; 17];
        v.push(("17 FMMUs".into(), d.image()));
        let mut d = base[0].1.clone();
        d.fmmus = vec![7, 9, 0x80];
        v.push(("undefined FMMU usage values".into(), d.image()));
    }
    v
}

/// Everything that runs in one build flavour.
pub fn enumerate(thorough: bool) -> Acc {
    let mut acc = Acc::new();
    let adv = adversarial();
    for (what, img) in &adv {
        for chunk in [4usize, 8] {
            run_queries(&mut acc, img, chunk, what);
        }
    }
    // (ii) single-word replacements over the first 128(+category area) words of well-formed images
    let vals = [0x0000u16, 0x0001, 0x0002, 0x000a, 0x001e, 0x0029, 0x0032, 0x00ff, 0x7fff, 0x8000, 0xfffe, 0xffff];
    for (name, d) in wellformed() {
        let img = d.image();
        let words = (img.len() / 2).min(if thorough { 256 } else { 160 });
        for w in 0..words {
            for val in vals {
                if u16::from_le_bytes([img[w * 2], img[w * 2 + 1]]) == val {
                    continue;
                }
                let mut m = img.clone();
                put16(&mut m, w, val);
                run_queries(&mut acc, &m, if w % 2 == 0 { 8 } else { 4 }, &format!("{}: word {:#06x} := {:#06x}", name, w, val));
            }
        }
        if thorough {
            // (iii) pairs in the category header words
            let mut hdrs = Vec::new();
            let mut off = 128usize;
            while off + 4 <= img.len() {
                let ty = u16::from_le_bytes([img[off], img[off + 1]]);
                hdrs.push(off / 2);
                hdrs.push(off / 2 + 1);
                if ty == 0xffff {
                    break;
                }
                off += 4 + u16::from_le_bytes([img[off + 2], img[off + 3]]) as usize * 2;
            }
            for (i, a) in hdrs.iter().enumerate() {
                for b in hdrs.iter().skip(i + 1) {
                    for va in [0u16, 1, 0x7fff, 0xfffe, 0xffff] {
                        for vb in [0u16, 2, 0x8000, 0xffff] {
                            let mut m = img.clone();
                            put16(&mut m, *a, va);
                            put16(&mut m, *b, vb);
                            run_queries(&mut acc, &m, 8, &format!("{}: words {:#06x}:={:#06x}, {:#06x}:={:#06x}", name, a, va, b, vb));
                        }
                    }
                }
            }
        }
    }
    // initialisation built on the queries: a simulated device carrying each adversarial image
    device_path(&mut acc, &adv);
    acc
}

fn device_path(acc: &mut Acc, adv: &[(String, Vec<u8>)]) {
    use crate::net::{Net, Stop};
    use crate::sim::{Device, Segment};
    for (what, img) in adv {
        if img.len() > 20000 {
            continue;
        }
        for read8 in [true, false] {
            let mut dev = Device::new(img.clone());
            dev.sii.read8 = read8;
            dev.coe = Some(crate::coe::CoeServer::new(128));
            let mut net = Net::new(Segment::new(vec![dev]));
            net.budget.frames = 3 * BUDGET;
            net.budget.virtual_us = 40_000_000;
            let md = net.md();
            acc.n += 1;
            acc.nt += 1;
            let r = net.run(async move {
                let g = md.init_single_group::<2, 64>(|| 0).await?;
                let g = g.into_safe_op(md).await?;
                Ok::<_, ethercrab::error::Error>(g.len())
            });
            match r {
                Ok(Ok(_)) => *acc.outcomes.entry("init+safe-op ok".into()).or_insert(0) += 1,
                Ok(Err(e)) => *acc.outcomes.entry(format!("init err {}", format!("{:?}", e).chars().take(20).collect::<String>())).or_insert(0) += 1,
                Err(Stop::Panic(p)) => acc.v(
                    &format!("panic init {}", panic_site(&p)),
                    format!("initialisation panicked: {} [device image: {} ; read8 {}]", p, what, read8),
                ),
                Err(s) => acc.v(
                    &format!("init-no-termination {}", match s { Stop::Deadlock => "deadlock", _ => "budget" }),
                    format!("initialisation did not finish: {:?} [device image: {} ; read8 {}]", s, what, read8),
                ),
            }
        }
    }
}

pub fn c13(tier: &Tier, child: bool) -> Result<i32, String> {
    let acc = enumerate(tier.thorough);
    if child {
        // machine readable summary for the parent (other build flavour)
        let out = json!({"evaluations": acc.n, "nontrivial": acc.nt, "outcomes": acc.outcomes, "violations": acc.viol});
        println!("CHILD-RESULT {}", out);
        return Ok(0);
    }
    let mut rep = Report::new("C13", "exploration", tier);
    rep.rule = "structured adversarial alphabet of EEPROM images: blank images, truncation at every category boundary, category length words {0,1,0x7fff,0x8000,0xfffd,0xfffe,0xffff} at every position of chains of depth <= 3, wrap-around and endless chains, size words 510/511/512/0xffff, string index/length overruns, PDO/SM/FMMU counts beyond the fixed capacities, every single-word replacement by 12 boundary values over the first 160 words of three well-formed images (pairs over category header words in the thorough tier); every EEPROM-derived query on an in-memory provider with an access budget of 2 x 65536 + 4096 reads, plus init + into_safe_op of a simulated device carrying each seed image; both build flavours (overflow checks on / off); non-trivial = every case".into();
    rep.assumptions = vec![
        "'any contents' is decided for this structured alphabet, not for all byte strings".into(),
        "a query that exhausts the access budget is reported as non-terminating within the budget (a category walk can legitimately visit at most 2^15 headers)".into(),
        "flavour 'checked' = optimised build with overflow checks and debug assertions, flavour 'fast' = plain release arithmetic; the fast flavour runs in a child process".into(),
    ];
    let mut flavours = vec![json!({"flavour": "checked", "evaluations": acc.n})];
    rep.evaluations = acc.n;
    rep.nontrivial = acc.nt;
    rep.outcomes = acc.outcomes.clone();
    let mut viol: Vec<(String, String)> = acc.viol.iter().map(|(s, m)| (format!("flavour=checked {}", s), m.clone())).collect();
    // other flavour
    match crate::checks::run_child_flavour("C13", tier) {
        Ok(v) => {
            rep.evaluations += v["evaluations"].as_u64().unwrap_or(0);
            rep.nontrivial += v["nontrivial"].as_u64().unwrap_or(0);
            flavours.push(json!({"flavour": "fast", "evaluations": v["evaluations"]}));
            if let Some(arr) = v["violations"].as_array() {
                for x in arr {
                    viol.push((format!("flavour=fast {}", x[0].as_str().unwrap_or("")), x[1].as_str().unwrap_or("").to_string()));
                }
            }
            if let Some(o) = v["outcomes"].as_object() {
                for (k, c) in o {
                    *rep.outcomes.entry(k.clone()).or_insert(0) += c.as_u64().unwrap_or(0);
                }
            }
        }
        Err(e) => return Err(format!("fast-flavour child failed: {}", e)),
    }
    for (s, m) in viol {
        if s.ends_with("machinery") {
            return Err(m);
        }
        rep.violation(&s, &m, json!({"engine": "c13", "detail": m}));
    }
    rep.states = rep.evaluations;
    rep.transitions = rep.evaluations;
    rep.extra.insert("flavours".into(), json!(flavours));
    rep.samples.push(json!("wrap-to-self: category of 0xfffe words at 0x40"));
    rep.samples.push(json!("simple io: word 0x0041 := 0x7fff"));
    Ok(rep.finish())
}
