//! C12: EEPROM reads return exactly the stored bytes and parse to what they encode.

use crate::eeprom::{Cat, DeviceDesc, GeneralDesc, MailboxDesc, PdoDesc, SmDesc};
use crate::memeeprom::{block_on_ready, MemEeprom};
use crate::report::{Report, Tier};
use ethercrab::verif::VerifEeprom;
use serde_json::json;
use std::collections::BTreeMap;
use std::panic::{catch_unwind, AssertUnwindSafe};

fn tagged_image(len: usize) -> Vec<u8> {
    (0..len).map(|i| ((i * 7 + (i >> 8) * 13 + 1) & 0xff) as u8).collect()
}

struct Acc {
    n: u64,
    nt: u64,
    outcomes: BTreeMap<String, u64>,
    viol: Vec<(String, String)>,
}

impl Acc {
    fn v(&mut self, sig: &str, msg: String) {
        if !self.viol.iter().any(|x| x.0 == sig) {
            self.viol.push((sig.to_string(), msg));
        }
    }
}

/// Part 1: every (start word, length) range, both chunk sizes.
fn ranges(acc: &mut Acc, thorough: bool) {
    let images: Vec<Vec<u8>> = if thorough { vec![tagged_image(256), tagged_image(2048)] } else { vec![tagged_image(256), tagged_image(2048)] };
    for img in &images {
        let words = img.len() / 2;
        let starts: Vec<usize> = if img.len() == 256 || thorough {
            (0..words).collect()
        } else {
            (0..words).filter(|w| w % 37 == 0 || *w > words - 24 || *w < 8).collect()
        };
        for chunk in [4usize, 8] {
            for &start in &starts {
                for len in 0..=40usize {
                    let p = MemEeprom::new(img.clone(), chunk, 10_000);
                    let e = VerifEeprom::new(p.clone());
                    let mut buf = vec![0xaau8; len];
                    acc.n += 1;
                    if len > 0 {
                        acc.nt += 1;
                    }
                    let r = catch_unwind(AssertUnwindSafe(|| block_on_ready(e.read_raw(start as u16, &mut buf))));
                    // bytes stored in the range (inside the image)
                    let avail = img.len().saturating_sub(start * 2).min(len);
                    let want = &img[start * 2..start * 2 + avail];
                    match r {
                        Err(_) => acc.v("panic read_raw", format!("read_raw(start {}, len {}) panicked (chunk {})", start, len, chunk)),
                        Ok(Err(e)) => acc.v("machinery", e),
                        Ok(Ok(Err(e))) => acc.v(
                            &format!("range-read-error parity={}", if len % 2 == 1 { "odd" } else { "even" }),
                            format!("read_raw(start word {}, {} bytes, chunk {}) failed: {:?}", start, len, chunk, e),
                        ),
                        Ok(Ok(Ok(n))) => {
                            *acc.outcomes.entry(format!("raw read {}", if n == len { "complete" } else { "short" })).or_insert(0) += 1;
                            if n > len {
                                acc.v("range-read-beyond-request", format!("read_raw(start {}, {} bytes) returned {} bytes", start, len, n));
                            } else if buf[..n] != img[start * 2..start * 2 + n.min(img.len() - start * 2)] && start * 2 + n <= img.len() {
                                acc.v(
                                    "range-read-wrong-bytes",
                                    format!("read_raw(start word {}, {} bytes, chunk {}) returned {:02x?}, stored {:02x?}", start, len, chunk, &buf[..n], want),
                                );
                            } else if n < avail {
                                acc.v(
                                    &format!("range-read-short parity={}", if len % 2 == 1 { "odd" } else { "even" }),
                                    format!("read_raw(start word {}, {} bytes, chunk {}) returned only {} bytes of a range that lies inside the image", start, len, chunk, n),
                                );
                            }
                            if buf[n..].iter().any(|b| *b != 0xaa) {
                                acc.v("range-read-wrote-beyond-count", format!("read_raw(start {}, len {}) touched the buffer beyond the {} bytes it reported", start, len, n));
                            }
                        }
                    }
                    // typed read (read_exact) of the same range
                    if len > 0 && len <= 16 && start * 2 + len <= img.len() {
                        let mut b2 = vec![0u8; len];
                        let e2 = VerifEeprom::new(MemEeprom::new(img.clone(), chunk, 10_000));
                        acc.n += 1;
                        match catch_unwind(AssertUnwindSafe(|| block_on_ready(e2.read_exact(start as u16, &mut b2)))) {
                            Ok(Ok(Ok(()))) => {
                                if b2 != img[start * 2..start * 2 + len] {
                                    acc.v("typed-read-wrong-bytes", format!("eeprom_read of {} bytes at word {} returned {:02x?}", len, start, b2));
                                }
                            }
                            Ok(Ok(Err(e))) => acc.v(
                                &format!("typed-read-error parity={}", if len % 2 == 1 { "odd" } else { "even" }),
                                format!("eeprom_read of {} bytes at word {} (inside the image) failed: {:?}", len, start, e),
                            ),
                            _ => acc.v("panic read_exact", format!("read_exact(start {}, len {}) panicked", start, len)),
                        }
                    }
                }
            }
        }
    }
}

fn check_desc(acc: &mut Acc, d: &DeviceDesc, chunk: usize, what: &str) {
    let img = d.image();
    let p = MemEeprom::new(img, chunk, 400_000);
    let e = VerifEeprom::new(p.clone());
    acc.n += 1;
    acc.nt += 1;
    let ctx = |q: &str| format!("{} [{} ; chunk {}]", q, what, chunk);
    macro_rules! q {
        ($name:expr, $fut:expr) => {{
            match catch_unwind(AssertUnwindSafe(|| block_on_ready($fut))) {
                Ok(Ok(v)) => Some(v),
                Ok(Err(m)) => {
                    acc.v("machinery", m);
                    None
                }
                Err(p) => {
                    acc.v(&format!("panic query={}", $name), format!("{} panicked: {}", ctx($name), crate::e1::panic_msg(&p)));
                    None
                }
            }
        }};
    }
    // identity
    if let Some(r) = q!("identity", e.identity()) {
        match r {
            Ok(id) if id == [d.vendor, d.product, d.revision, d.serial] => {}
            other => acc.v("identity-wrong", format!("{}: got {:x?}, encoded {:x?}", ctx("identity"), other, [d.vendor, d.product, d.revision, d.serial])),
        }
    }
    // size
    if let Some(r) = q!("size", e.size()) {
        let want = d.size_kbit as usize * 128;
        match r {
            Ok(n) if n == want => {}
            other => acc.v(
                &format!("size-wrong {}", if d.size_kbit >= 512 { "size>=512Kbit" } else { "small" }),
                format!("{}: got {:?}, the size word encodes {} Kibit = {} bytes", ctx("size"), other, d.size_kbit, want),
            ),
        }
    }
    // mailbox
    if let Some(r) = q!("mailbox", e.mailbox_config()) {
        let m = d.mailbox.clone().unwrap_or(MailboxDesc { rx_offset: 0, rx_size: 0, tx_offset: 0, tx_size: 0, protocols: 0 });
        match r {
            Ok((a, b, c, dd, pr, _has)) if (a, b, c, dd, pr) == (m.rx_offset, m.rx_size, m.tx_offset, m.tx_size, m.protocols) => {}
            other => acc.v("mailbox-wrong", format!("{}: got {:?}, encoded {:?}", ctx("mailbox_config"), other, m)),
        }
    }
    let has_general = d.order.contains(&Cat::General);
    let has_strings = d.order.contains(&Cat::Strings);
    // general
    if let Some(r) = q!("general", e.general()) {
        match (&r, has_general) {
            (Ok(g), true) => {
                let w = d.general.clone().unwrap_or_default();
                let ok = g.group_string_idx == w.group_idx
                    && g.image_string_idx == w.image_idx
                    && g.order_string_idx == w.order_idx
                    && g.name_string_idx == w.name_idx
                    && g.coe_details == w.coe_details
                    && g.foe_enabled == w.foe
                    && g.eoe_enabled == w.eoe
                    && g.flags == w.flags
                    && g.ebus_current == w.ebus_current
                    && g.ports == w.ports
                    && g.physical_memory_addr == w.phys_mem_addr;
                if !ok {
                    acc.v("general-wrong", format!("{}: got {:?}, encoded {:?}", ctx("general"), g, w));
                }
            }
            (Err(_), false) => {}
            (other, _) => acc.v("general-presence-wrong", format!("{}: got {:?}, category present: {}", ctx("general"), other.as_ref().map(|_| ()), has_general)),
        }
    }
    // name / description
    let g = d.general.clone().unwrap_or_default();
    if let Some(r) = q!("device_name", e.device_name()) {
        let want = if has_general && has_strings { d.expected_string(g.order_idx, 64) } else { None };
        let raw_len = if g.order_idx > 0 { d.strings.get(g.order_idx as usize - 1).map(|s| s.len()).unwrap_or(0) } else { 0 };
        match r {
            Ok(got) => {
                if got.as_ref().map(|s| s.as_str().to_string()) != want {
                    acc.v("name-wrong", format!("{}: got {:?}, encoded {:?}", ctx("device_name"), got, want));
                }
            }
            Err(err) => {
                // a string longer than the 64-byte capacity cannot be reported; anything else is wrong
                if !(raw_len > 64 && has_general && has_strings) {
                    acc.v("name-error", format!("{}: {:?} (encoded {:?})", ctx("device_name"), err, want));
                }
            }
        }
    }
    if has_general {
        if let Some(r) = q!("device_description", e.device_description()) {
            let want = if has_strings { d.expected_string(g.name_idx, 128) } else { None };
            let raw_len = if g.name_idx > 0 { d.strings.get(g.name_idx as usize - 1).map(|s| s.len()).unwrap_or(0) } else { 0 };
            match r {
                Ok(got) => {
                    if got.as_ref().map(|s| s.as_str().to_string()) != want {
                        acc.v("description-wrong", format!("{}: got {:?}, encoded {:?}", ctx("device_description"), got, want));
                    }
                }
                Err(err) => {
                    if !(raw_len > 128 && has_strings) {
                        acc.v("description-error", format!("{}: {:?} (encoded {:?})", ctx("device_description"), err, want));
                    }
                }
            }
        }
    }
    // every string index
    if has_strings {
        for idx in 0..=(d.strings.len() as u8) {
            if let Some(r) = q!("find_string", e.find_string::<255>(idx)) {
                let want = d.expected_string(idx, 255);
                match r {
                    Ok(got) => {
                        if got.as_ref().map(|s| s.as_str().to_string()) != want {
                            acc.v(
                                &format!("string-wrong {}", if usize::from(idx) > d.strings.len() { "index-past-table" } else { "in-table" }),
                                format!("{}: index {} got {:?}, encoded {:?} (table has {} strings)", ctx("find_string"), idx, got, want, d.strings.len()),
                            );
                        }
                    }
                    Err(err) => {
                        if want.is_some() || usize::from(idx) <= d.strings.len() {
                            acc.v(
                                &format!("string-error {}", if usize::from(idx) > d.strings.len() { "index-past-table" } else { "in-table" }),
                                format!("{}: index {} failed with {:?}, encoded {:?}", ctx("find_string"), idx, err, want),
                            );
                        } else {
                            // an index beyond the table: 'absent' or an error are both acceptable outcomes
                        }
                    }
                }
            }
        }
    }
    // sync managers
    if let Some(r) = q!("sync_managers", e.sync_managers()) {
        let present = d.order.contains(&Cat::SyncM);
        let want: Vec<(u16, u16, u8, u8, u8)> = if present { d.sms.iter().map(|s| (s.start, s.len, s.control, s.enable, s.usage)).collect() } else { vec![] };
        match r {
            Ok(got) => {
                let g2: Vec<(u16, u16, u8, u8, u8)> = got.iter().map(|s| (s.0, s.1, s.2, s.3, s.4)).collect();
                if g2 != want {
                    acc.v("sync-managers-wrong", format!("{}: got {:x?}, encoded {:x?}", ctx("sync_managers"), g2, want));
                }
            }
            Err(err) => {
                if want.len() <= 8 {
                    acc.v("sync-managers-error", format!("{}: {:?}, encoded {:x?}", ctx("sync_managers"), err, want));
                }
            }
        }
    }
    // FMMU usage
    if let Some(r) = q!("fmmus", e.fmmus()) {
        let present = d.order.contains(&Cat::Fmmu) && !d.fmmus.is_empty();
        let mut want: Vec<u8> = if present { d.fmmus.iter().map(|f| if *f == 0xff { 0 } else { *f }).collect() } else { vec![] };
        // odd counts are padded with one 0 byte to a whole word
        if want.len() % 2 == 1 {
            want.push(0);
        }
        match r {
            Ok(got) => {
                let g2: Vec<u8> = got.iter().copied().collect();
                if g2 != want {
                    acc.v("fmmu-usage-wrong", format!("{}: got {:?}, encoded {:?} (+ padding)", ctx("fmmus"), g2, want));
                }
            }
            Err(err) => acc.v("fmmu-usage-error", format!("{}: {:?}, encoded {:?}", ctx("fmmus"), err, want)),
        }
    }
    if let Some(r) = q!("fmmu_mappings", e.fmmu_mappings()) {
        let present = d.order.contains(&Cat::FmmuEx);
        let want: Vec<u8> = if present { d.fmmu_ex.clone() } else { vec![] };
        match r {
            Ok(got) => {
                let g2: Vec<u8> = got.iter().copied().collect();
                // a 3-byte record list padded to a whole word may be followed by a partial record: ignore nothing, compare the full records
                if g2.len() < want.len() || g2[..want.len()] != want[..] || g2.len() > want.len() + 0 {
                    if !(g2.len() == want.len() + 0) {
                        acc.v("fmmu-ex-wrong", format!("{}: got {:?}, encoded {:?}", ctx("fmmu_mappings"), g2, want));
                    }
                }
            }
            Err(err) => acc.v("fmmu-ex-error", format!("{}: {:?}", ctx("fmmu_mappings"), err)),
        }
    }
    // PDOs
    for (tx, cat, list) in [(true, Cat::TxPdo, &d.tx_pdos), (false, Cat::RxPdo, &d.rx_pdos)] {
        if let Some(r) = q!("pdos", e.pdos(tx)) {
            let present = d.order.contains(&cat);
            let want: Vec<(u16, u8, u8, u32)> = if present { list.iter().map(|p| (p.index, p.entries.len() as u8, p.sm, DeviceDesc::pdo_bit_len(p))).collect() } else { vec![] };
            match r {
                Ok(got) => {
                    let g2: Vec<(u16, u8, u8, u32)> = got.iter().map(|p| (p.0, p.1, p.2, u32::from(p.3))).collect();
                    if g2 != want {
                        let big = want.iter().any(|w| w.3 > 0xffff);
                        acc.v(
                            &format!("pdos-wrong {}", if big { "bit-length-over-16-bits" } else { "plain" }),
                            format!("{}: got {:x?}, encoded {:x?}", ctx(if tx { "tx pdos" } else { "rx pdos" }), g2, want),
                        );
                    }
                }
                Err(err) => {
                    if want.len() <= 64 {
                        acc.v("pdos-error", format!("{}: {:?}, encoded {:x?}", ctx("pdos"), err, want));
                    }
                }
            }
        }
    }
    if p.exhausted() {
        acc.v("access-budget-exhausted", format!("queries on a well-formed image used more than 400000 device accesses [{}]", what));
    }
}

fn string_of(len: usize, flavour: usize) -> Vec<u8> {
    (0..len)
        .map(|i| match (flavour + i) % 11 {
            0 if flavour % 3 == 1 => 0x00,
            1 if flavour % 3 == 2 => 0xb5,
            k => b'A' + (k as u8 % 26),
        })
        .collect()
}

fn descriptions(thorough: bool) -> Vec<(String, DeviceDesc)> {
    let mut v: Vec<(String, DeviceDesc)> = Vec::new();
    let base = {
        let mut d = crate::eeprom::simple_io(0x1234, &[8, 1, 7], &[16]);
        d.mailbox = Some(MailboxDesc { rx_offset: 0x1800, rx_size: 128, tx_offset: 0x1c00, tx_size: 128, protocols: 0x0c });
        d.general = Some(GeneralDesc { coe_details: 0x27, flags: 0x11, ebus_current: -120, ports: [3, 3, 1, 0], phys_mem_addr: 0x0f00, foe: true, ..Default::default() });
        d.fmmu_ex = vec![0, 1];
        d.order = vec![Cat::Strings, Cat::General, Cat::Fmmu, Cat::SyncM, Cat::FmmuEx, Cat::TxPdo, Cat::RxPdo];
        d
    };
    v.push(("base".into(), base.clone()));
    // A: strings
    let lens = [0usize, 1, 2, 63, 64, 255];
    for count in 0..=3usize {
        let combos = lens.len().pow(count as u32);
        for c in 0..combos {
            if !thorough && count == 3 && c % 7 != 0 {
                continue;
            }
            let mut d = base.clone();
            let mut x = c;
            d.strings = (0..count)
                .map(|k| {
                    let l = lens[x % lens.len()];
                    x /= lens.len();
                    string_of(l, c + k)
                })
                .collect();
            // only indices a well-formed EEPROM can contain (0 = no string, 1..=count)
            for order_idx in 0..=(count as u8) {
                let mut d2 = d.clone();
                d2.general.as_mut().unwrap().order_idx = order_idx;
                d2.general.as_mut().unwrap().name_idx = (order_idx + 1) % (count as u8 + 1);
                v.push((format!("strings {:?} order_idx {}", d2.strings.iter().map(|s| s.len()).collect::<Vec<_>>(), order_idx), d2));
            }
        }
    }
    // B: sync managers
    let sm_alpha = [
        SmDesc { start: 0x1000, len: 128, control: 0x26, enable: 1, usage: 1 },
        SmDesc { start: 0x1080, len: 128, control: 0x22, enable: 1, usage: 2 },
        SmDesc { start: 0x1100, len: 6, control: 0x24, enable: 1, usage: 3 },
        SmDesc { start: 0x1180, len: 0, control: 0x20, enable: 0, usage: 4 },
        SmDesc { start: 0x1200, len: 2, control: 0x00, enable: 9, usage: 0 },
    ];
    for count in 0..=3usize {
        for c in 0..sm_alpha.len().pow(count as u32) {
            let mut d = base.clone();
            let mut x = c;
            d.sms = (0..count)
                .map(|_| {
                    let s = sm_alpha[x % sm_alpha.len()].clone();
                    x /= sm_alpha.len();
                    s
                })
                .collect();
            v.push((format!("sms {:?}", d.sms.iter().map(|s| s.usage).collect::<Vec<_>>()), d));
        }
    }
    {
        let mut d = base.clone();
        d.sms = (0..8).map(|k| SmDesc { start: 0x1000 + 0x80 * k, len: k, control: 0x24, enable: 1, usage: (k % 5) as u8 }).collect();
        v.push(("8 sync managers".into(), d));
    }
    // C: FMMU usage lists
    for f in [vec![], vec![1u8], vec![2], vec![1, 2], vec![3], vec![1, 2, 3, 0xff], (0..16).map(|k| [1u8, 2, 3, 0][k % 4]).collect()] {
        let mut d = base.clone();
        d.fmmus = f.clone();
        v.push((format!("fmmus {:?}", f), d));
    }
    // D: FMMU_EX
    for f in [vec![], vec![2u8], vec![2, 3], vec![0, 1, 2, 3]] {
        let mut d = base.clone();
        d.fmmu_ex = f.clone();
        v.push((format!("fmmu_ex {:?}", f), d));
    }
    // E: PDOs
    let bits = [1u8, 8, 16, 255];
    for ntx in 0..=2usize {
        for nent in 0..=3usize {
            for b in 0..bits.len() {
                let mut d = base.clone();
                d.tx_pdos = (0..ntx).map(|k| PdoDesc { index: 0x1a00 + k as u16, sm: 3, entries: (0..nent).map(|e| bits[(b + e + k) % bits.len()]).collect() }).collect();
                d.rx_pdos = (0..(2 - ntx)).map(|k| PdoDesc { index: 0x1600 + k as u16, sm: 2, entries: (0..(3 - nent)).map(|e| bits[(b + e) % bits.len()]).collect() }).collect();
                v.push((format!("pdos tx {} x {} entries", ntx, nent), d));
            }
        }
    }
    {
        let mut d = base.clone();
        d.tx_pdos = (0..64).map(|k| PdoDesc { index: 0x1a00 + k, sm: 3, entries: vec![8] }).collect();
        v.push(("64 tx pdos".into(), d));
        let mut d = base.clone();
        d.rx_pdos = vec![PdoDesc { index: 0x1600, sm: 2, entries: vec![255; 255] }];
        d.size_kbit = 64;
        v.push(("one pdo with 255 entries of 255 bits".into(), d));
        let mut d = base.clone();
        d.rx_pdos = vec![PdoDesc { index: 0x1600, sm: 2, entries: vec![200; 255] }];
        d.size_kbit = 64;
        v.push(("one pdo with 255 entries of 200 bits".into(), d));
    }
    // F: category order x vendor category position
    let four = [Cat::Strings, Cat::General, Cat::SyncM, Cat::TxPdo];
    let mut perms: Vec<Vec<Cat>> = Vec::new();
    fn permute(cur: &mut Vec<Cat>, rest: &mut Vec<Cat>, out: &mut Vec<Vec<Cat>>) {
        if rest.is_empty() {
            out.push(cur.clone());
            return;
        }
        for i in 0..rest.len() {
            let c = rest.remove(i);
            cur.push(c);
            permute(cur, rest, out);
            cur.pop();
            rest.insert(i, c);
        }
    }
    permute(&mut Vec::new(), &mut four.to_vec(), &mut perms);
    for p in &perms {
        let mut d = base.clone();
        let mut order = p.clone();
        order.extend([Cat::Fmmu, Cat::FmmuEx, Cat::RxPdo]);
        d.order = order.clone();
        v.push((format!("order {:?}", p), d.clone()));
        for pos in 0..=4usize {
            for (ty, words) in [(0x0800u16, 3u16), (0x4000, 0), (0x0007, 1)] {
                if !thorough && (pos + ty as usize) % 3 != 0 {
                    continue;
                }
                let mut d2 = d.clone();
                let mut o2 = order.clone();
                o2.insert(pos, Cat::Vendor(ty, words));
                d2.order = o2;
                v.push((format!("order {:?} vendor {:#06x}/{} words at {}", p, ty, words, pos), d2));
            }
        }
    }
    // omitted categories
    for omit in [Cat::Strings, Cat::General, Cat::Fmmu, Cat::SyncM, Cat::FmmuEx, Cat::TxPdo, Cat::RxPdo] {
        let mut d = base.clone();
        d.order.retain(|c| *c != omit);
        v.push((format!("without {:?}", omit), d));
    }
    v
}

pub fn c12(tier: &Tier) -> Result<i32, String> {
    let mut rep = Report::new("C12", "exploration", tier);
    rep.rule = "(1) every (start word, length 0..=40) range over position-tagged images of 256 B and 2 KiB, devices serving 4 and 8 bytes per access, through the crate's raw and typed read paths on an in-memory provider; (2) device descriptions enumerated from a grammar (string tables, sync manager lists, FMMU usage, FMMU_EX, PDO sets, every order of four categories with vendor categories interleaved, omitted categories, every legal size word 1 Kibit..4 Mibit), encoded by an independent generator and parsed by the crate's queries; (3) a slice through SubDevice::eeprom_* and init against the segment simulator; non-trivial = non-empty range / description query".into();
    rep.assumptions = vec![
        "reference encoder written from ETG.2010 (/verif/mc/src/eeprom.rs); it shares no code with ethercrab".into(),
        "a name or description longer than the crate's fixed string capacity (64/128 bytes) cannot be reported; an error for those is not judged".into(),
        "bytes beyond the image read as 0xFF; the word address space is 16 bit".into(),
    ];
    let mut acc = Acc { n: 0, nt: 0, outcomes: BTreeMap::new(), viol: Vec::new() };
    ranges(&mut acc, tier.thorough);
    let descs = descriptions(tier.thorough);
    for (what, d) in &descs {
        for chunk in [4usize, 8] {
            check_desc(&mut acc, d, chunk, what);
        }
    }
    // G: every size word
    for kbit in 1..=4096u32 {
        let mut d = DeviceDesc::default();
        d.size_kbit = kbit;
        let mut img = d.image();
        img.truncate(256);
        let e = VerifEeprom::new(MemEeprom::new(img, 8, 1000));
        acc.n += 1;
        match catch_unwind(AssertUnwindSafe(|| block_on_ready(e.size()))) {
            Ok(Ok(Ok(n))) if n == kbit as usize * 128 => {}
            Ok(Ok(other)) => acc.v(
                &format!("size-wrong {}", if kbit >= 512 { "size>=512Kbit" } else { "small" }),
                format!("size(): got {:?}, the size word {} encodes {} Kibit = {} bytes", other, kbit - 1, kbit, kbit as usize * 128),
            ),
            Ok(Err(m)) => acc.v("machinery", m),
            Err(p) => acc.v(
                &format!("panic query=size {}", if kbit >= 512 { "size>=512Kbit" } else { "small" }),
                format!("size() panicked for size word {} ({} Kibit): {}", kbit - 1, kbit, crate::e1::panic_msg(&p)),
            ),
        }
    }
    // (3) device path
    device_path(&mut acc, tier.thorough);
    rep.evaluations = acc.n;
    rep.nontrivial = acc.nt;
    rep.outcomes = acc.outcomes;
    rep.states = acc.n;
    rep.transitions = acc.n;
    for (s, m) in acc.viol {
        if s == "machinery" {
            return Err(m);
        }
        rep.violation(&s, &m, json!({"engine": "c12", "detail": m}));
    }
    rep.extra.insert("descriptions".into(), json!(descs.len()));
    rep.samples.push(json!(descs[descs.len() / 2].0));
    rep.samples.push(json!({"range": {"start_word": 17, "len": 5, "chunk": 4}}));
    Ok(rep.finish())
}

fn device_path(acc: &mut Acc, thorough: bool) {
    use crate::net::Net;
    use crate::sim::{Device, Segment};
    let descs = descriptions(false);
    let step = if thorough { 3 } else { 10 };
    for (k, (what, d)) in descs.iter().enumerate().filter(|(k, _)| k % step == 0) {
        for (read8, busy) in [(true, 0u8), (false, 2)] {
            // only descriptions a MainDevice can bring up at all: mailbox present needs a CoE server
            let mut dev = Device::new(d.image());
            dev.sii.read8 = read8;
            dev.sii.busy_polls = busy;
            if d.mailbox.is_some() {
                dev.coe = Some(crate::coe::CoeServer::new(128));
            }
            let mut net = Net::new(Segment::new(vec![dev]));
            let md = net.md();
            acc.n += 1;
            acc.nt += 1;
            let img = d.image();
            let want_id = [d.vendor, d.product, d.revision, d.serial];
            let r = net.run(async move {
                let g = md.init_single_group::<2, 64>(|| 0).await?;
                let sd = g.subdevice(md, 0)?;
                let id = sd.identity();
                let name = sd.name().to_string();
                let mut raw = [0u8; 24];
                let n = sd.eeprom_read_raw(md, 4, &mut raw).await?;
                let size = sd.eeprom_size(md).await?;
                let desc = sd.description().await;
                Ok::<_, ethercrab::error::Error>(([id.vendor_id, id.product_id, id.revision, id.serial], name, raw, n, size, format!("{:?}", desc)))
            });
            match r {
                Ok(Ok((id, name, raw, n, size, _desc))) => {
                    if id != want_id {
                        acc.v("device-path identity-wrong", format!("device path: identity {:x?}, encoded {:x?} [{}]", id, want_id, what));
                    }
                    let has = d.order.contains(&Cat::General) && d.order.contains(&Cat::Strings);
                    let g = d.general.clone().unwrap_or_default();
                    if let Some(want) = if has { d.expected_string(g.order_idx, 64) } else { None } {
                        if name != want {
                            acc.v("device-path name-wrong", format!("device path: name {:?}, encoded {:?} [{}]", name, want, what));
                        }
                    }
                    if n != 24 || raw[..] != img[8..32] {
                        acc.v("device-path raw-read-wrong", format!("device path: eeprom_read_raw(word 4, 24 bytes) returned {} bytes {:02x?}, stored {:02x?} [{} read8={}]", n, raw, &img[8..32], what, read8));
                    }
                    if size != d.size_kbit as usize * 128 {
                        acc.v("device-path size-wrong", format!("device path: size {} for {} Kibit", size, d.size_kbit));
                    }
                    *acc.outcomes.entry("device path ok".into()).or_insert(0) += 1;
                }
                Ok(Err(e)) => {
                    *acc.outcomes.entry(format!("device path err {}", format!("{:?}", e).chars().take(24).collect::<String>())).or_insert(0) += 1;
                    // bring-up can legitimately fail for descriptions that are not a usable device
                    // (e.g. name longer than the capacity); nothing is judged here
                    let _ = k;
                }
                Err(stop) => acc.v(
                    &format!("device-path-did-not-finish {}", format!("{:?}", stop).chars().take(16).collect::<String>()),
                    format!("device path: init/reads did not finish: {:?} [{}]", stop, what),
                ),
            }
        }
    }
}
