//! C10: a group's typestate never claims a state its SubDevices are not in.

use crate::eeprom::simple_io;
use crate::net::{Net, Stop};
use crate::report::{Report, Tier};
use crate::sim::{AlAnswer, Device, Segment, R_AL_STATUS};
use ethercrab::error::Error;
use ethercrab::{SubDeviceGroup, SubDeviceState};
use serde_json::json;
use std::collections::BTreeMap;

#[derive(Clone, Copy, Debug, PartialEq, Eq)]
pub enum Trans {
    PreOpToSafeOp,
    PreOpToOp,
    PreOpRequestOp,
    SafeOpToPreOp,
    SafeOpToOp,
    OpToSafeOp,
    PreOpToInit,
}

const TRANS: [Trans; 7] = [
    Trans::PreOpToSafeOp,
    Trans::PreOpToOp,
    Trans::PreOpRequestOp,
    Trans::SafeOpToPreOp,
    Trans::SafeOpToOp,
    Trans::OpToSafeOp,
    Trans::PreOpToInit,
];

impl Trans {
    fn target(self) -> u8 {
        match self {
            Trans::PreOpToSafeOp | Trans::OpToSafeOp => 4,
            Trans::PreOpToOp | Trans::PreOpRequestOp | Trans::SafeOpToOp => 8,
            Trans::SafeOpToPreOp => 2,
            Trans::PreOpToInit => 1,
        }
    }
}

#[derive(Clone, Copy, Debug, PartialEq, Eq)]
pub enum Script {
    Accept0,
    Accept1,
    Accept2,
    Refuse,
    Stall,
    FallBack,
    /// reports the state on the first status read and has fallen back on the second
    FallBackSoon,
    /// reports the state and falls back two datagrams later, whether or not anybody looks
    FallBackTimed,
}

const SCRIPTS: [Script; 8] = [Script::Accept0, Script::Accept1, Script::Accept2, Script::Refuse, Script::Stall, Script::FallBack, Script::FallBackSoon, Script::FallBackTimed];

impl Script {
    fn answer(self, prev: u8) -> AlAnswer {
        match self {
            Script::Accept0 => AlAnswer::Accept { polls: 0 },
            Script::Accept1 => AlAnswer::Accept { polls: 1 },
            Script::Accept2 => AlAnswer::Accept { polls: 2 },
            Script::Refuse => AlAnswer::Refuse { code: 0x0011 },
            Script::Stall => AlAnswer::Stall,
            Script::FallBack => AlAnswer::AcceptThenFallBack { polls: 3, to: prev, code: 0x001b },
            Script::FallBackSoon => AlAnswer::AcceptThenFallBack { polls: 1, to: prev, code: 0x001b },
            Script::FallBackTimed => AlAnswer::AcceptThenFallBackTimed { ticks: 2, to: prev, code: 0x001b },
        }
    }
    fn gets_there(self) -> bool {
        matches!(self, Script::Accept0 | Script::Accept1 | Script::Accept2 | Script::FallBack | Script::FallBackSoon | Script::FallBackTimed)
    }
}

#[derive(Clone, Debug)]
pub struct Case {
    /// group of each device: 0 = group under test, 1 = other group
    pub member: Vec<bool>,
    pub trans: Trans,
    pub scripts: Vec<Script>,
    /// apply the script to the intermediate SAFE-OP step instead of the final one (PreOpToOp only)
    pub on_intermediate: bool,
    /// frame size of the MainDevice: 44 holds two status checks per frame, 1100 all of them
    pub frame: usize,
}

#[derive(Default)]
struct Groups {
    a: SubDeviceGroup<8, 32>,
    b: SubDeviceGroup<8, 32>,
}

fn run_case(case: &Case, healthy_us: u64) -> (String, Vec<(String, String)>, u64) {
    let n = case.member.len();
    let devs: Vec<Device> = (0..n).map(|i| Device::new(simple_io(0x3000 + i as u32, &[8], &[8]).image())).collect();
    let mut net = Net::with_size(Segment::new(devs), crate::net::timeouts(), ethercrab::RetryBehaviour::None, case.frame);
    net.budget.virtual_us = 400_000;
    net.budget.polls = 200_000;
    let md = net.md();
    let member = case.member.clone();
    let mut viol: Vec<(String, String)> = Vec::new();
    // bring up to the transition's source state with healthy devices
    let trans = case.trans;
    let setup = net.run(async move {
        let g = md
            .init::<8, _>(|| 0, Groups::default(), move |g, sd| {
                let i = (sd.identity().product_id - 0x3000) as usize;
                if member[i] {
                    Ok(&g.a)
                } else {
                    Ok(&g.b)
                }
            })
            .await?;
        Ok::<_, Error>(g)
    });
    let Groups { a, b } = match setup {
        Ok(Ok(g)) => g,
        o => return (format!("setup failed {:?}", o.map(|r| r.map(|_| ()))), vec![("setup-failed".into(), "init of a healthy network failed".into())], 0),
    };
    let _b = b;
    // Source state and script installation
    let prev_state: u8 = match trans {
        Trans::SafeOpToPreOp | Trans::SafeOpToOp => 4,
        Trans::OpToSafeOp => 8,
        _ => 2,
    };
    let target = trans.target();
    let install = |net: &Net, scripts: &[Script], for_state: u8, prev: u8| {
        let mut seg = net.seg.borrow_mut();
        for (i, s) in scripts.iter().enumerate() {
            seg.devices[i].al_script.insert(for_state, s.answer(prev));
            seg.devices[i].writes.clear();
            seg.devices[i].al_changes.clear();
            seg.devices[i].al_reads.clear();
        }
    };
    macro_rules! finish {
        ($res:expr, $t0:expr) => {{
            let elapsed = crate::clock::now() - $t0;
            let seg = net.seg.borrow();
            let states: Vec<u8> = seg.devices.iter().map(|d| d.al_state()).collect();
            let ok = matches!($res, Ok(Ok(_)));
            let members: Vec<usize> = (0..n).filter(|i| case.member[*i]).collect();
            let all_there = members.iter().all(|i| states[*i] == target);
            let can_all_get_there = members.iter().all(|i| case.scripts[*i].gets_there());
            if let Err(stop) = &$res {
                viol.push((
                    format!("transition-did-not-return {}", match stop { Stop::Deadlock => "deadlock", Stop::Budget(_) => "budget", Stop::Panic(_) => "panic" }),
                    format!("transition {:?} did not return: {:?}", trans, stop),
                ));
            }
            if ok && trans != Trans::PreOpRequestOp {
                // at the moment it was checked every member reported the state; afterwards only a
                // scripted fall-back may change it
                let fell_back = members.iter().any(|i| matches!(case.scripts[*i], Script::FallBack | Script::FallBackSoon | Script::FallBackTimed));
                // "at the moment it was checked, every SubDevice of the group reported the requested
                // state": the success must rest on one check round, i.e. the last status reads before
                // the call returned are one per member and each of them reported the state. (Reports
                // collected in different rounds do not count: a member may have fallen back since.)
                let mut reads: Vec<(u64, usize, u8)> = Vec::new();
                for i in &members {
                    for (seq, st) in &seg.devices[*i].al_reads {
                        reads.push((*seq, *i, *st));
                    }
                }
                reads.sort();
                let m = members.len();
                let tail: Vec<(u64, usize, u8)> = reads.iter().rev().take(m).cloned().collect();
                let mut seen: Vec<usize> = tail.iter().map(|r| r.1).collect();
                seen.sort();
                seen.dedup();
                let one_round = tail.len() == m && seen.len() == m && tail.iter().all(|r| r.2 == target);
                if !one_round && m > 0 {
                    viol.push((
                        "success-not-backed-by-one-check-round".into(),
                        format!("transition {:?} returned Ok but the last {} status reads of the members (seq, device, reported) were {:x?}, not one report of {:#x} per member (scripts {:?})", trans, m, tail, target, case.scripts),
                    ));
                }
                if !all_there && !fell_back {
                    viol.push((
                        "success-without-all-members-in-state".into(),
                        format!("transition {:?} returned Ok but members report AL states {:x?} (target {:#x}, scripts {:?})", trans, states, target, case.scripts),
                    ));
                }
                if !can_all_get_there {
                    viol.push((
                        "success-although-a-member-never-got-there".into(),
                        format!("transition {:?} returned Ok although scripts {:?} keep a member out of the state", trans, case.scripts),
                    ));
                }
            }
            // a member that falls back after one status read may or may not be caught in the state
            // together with slower members: only the other scripts oblige the call to succeed
            let must_succeed = members.iter().all(|i| case.scripts[*i].gets_there() && !matches!(case.scripts[*i], Script::FallBackSoon | Script::FallBackTimed));
            if !ok && $res.is_ok() && must_succeed && !case.on_intermediate {
                viol.push((
                    "healthy-transition-failed".into(),
                    format!("transition {:?} failed ({}) although every member accepts (scripts {:?})", trans, match &$res { Ok(Err(e)) => format!("{:?}", e), _ => String::new() }, case.scripts),
                ));
            }
            // error within the transition timeout (+ one PDU timeout + slack) of virtual time
            // (the same call on a healthy network takes `healthy_us` for configuration and requests)
            if !ok && healthy_us > 0 && elapsed > healthy_us + 5_000 + 300 + 600 {
                viol.push((
                    "error-later-than-transition-timeout".into(),
                    format!("transition {:?} took {} us of virtual time to fail (timeout 5000 us; the healthy call takes {} us)", trans, elapsed, healthy_us),
                ));
            }
            // AL control writes: members only
            for i in 0..n {
                let reqs = seg.devices[i]
                    .writes
                    .iter()
                    .filter(|w| w.addr == 0x0120 && !w.data.is_empty() && (w.data[0] & 0x0f) == target)
                    .count();
                if !case.member[i] && reqs > 0 {
                    viol.push((
                        "state-request-outside-group".into(),
                        format!("device {} is not in the group but received {} requests for state {:#x}", i, reqs, target),
                    ));
                }
                if case.member[i] && ok && reqs == 0 {
                    viol.push((
                        "member-not-requested".into(),
                        format!("member device {} never received the request for state {:#x} although the transition succeeded", i, target),
                    ));
                }
            }
            let key = format!("{:?} {}", trans, if ok { "ok".to_string() } else { match &$res { Ok(Err(e)) => format!("{:?}", e).chars().take(28).collect::<String>(), Err(s) => format!("{:?}", s).chars().take(16).collect(), _ => String::new() } });
            (key, elapsed)
        }};
    }
    let _ = healthy_us;
    let scripts = case.scripts.clone();
    let (key, _elapsed) = match trans {
        Trans::PreOpToSafeOp => {
            install(&net, &scripts, 4, prev_state);
            let t0 = crate::clock::now();
            let r = net.run(async move { a.into_safe_op(md).await });
            finish!(r, t0)
        }
        Trans::PreOpToOp => {
            if case.on_intermediate {
                install(&net, &scripts, 4, 2);
            } else {
                install(&net, &scripts, 8, 4);
            }
            let t0 = crate::clock::now();
            let r = net.run(async move { a.into_op(md).await });
            if case.on_intermediate {
                // judged as a SAFE-OP failure: never Ok when a member cannot reach SAFE-OP
                let ok = matches!(r, Ok(Ok(_)));
                if ok && !scripts.iter().enumerate().all(|(i, s)| !case.member[i] || s.gets_there()) {
                    viol.push(("success-although-a-member-never-got-there".into(), format!("into_op returned Ok although scripts {:?} keep a member out of SAFE-OP", scripts)));
                }
                (format!("PreOpToOp(intermediate) {}", if ok { "ok" } else { "err" }), crate::clock::now() - t0)
            } else {
                finish!(r, t0)
            }
        }
        Trans::PreOpRequestOp => {
            install(&net, &scripts, 8, 4);
            let t0 = crate::clock::now();
            let r = net.run(async move { a.into_pre_op_pdi(md).await?.request_into_op(md).await });
            finish!(r, t0)
        }
        Trans::SafeOpToPreOp | Trans::SafeOpToOp => {
            let g = match net.run(async move { a.into_safe_op(md).await }) {
                Ok(Ok(g)) => g,
                _ => return ("setup failed".into(), vec![("setup-failed".into(), "healthy into_safe_op failed".into())], 0),
            };
            install(&net, &scripts, target, prev_state);
            let t0 = crate::clock::now();
            if trans == Trans::SafeOpToPreOp {
                let r = net.run(async move { g.into_pre_op(md).await });
                finish!(r, t0)
            } else {
                let r = net.run(async move { g.into_op(md).await });
                finish!(r, t0)
            }
        }
        Trans::OpToSafeOp => {
            let g = match net.run(async move { a.into_op(md).await }) {
                Ok(Ok(g)) => g,
                _ => return ("setup failed".into(), vec![("setup-failed".into(), "healthy into_op failed".into())], 0),
            };
            install(&net, &scripts, 4, 8);
            let t0 = crate::clock::now();
            let r = net.run(async move { g.into_safe_op(md).await });
            finish!(r, t0)
        }
        Trans::PreOpToInit => {
            install(&net, &scripts, 1, 2);
            let t0 = crate::clock::now();
            let r = net.run(async move { a.into_init(md).await });
            finish!(r, t0)
        }
    };
    (key, viol, _elapsed)
}

// ---- summary predicates ---------------------------------------------------------------------

const STATE_VALUES: [u8; 7] = [0x00, 0x01, 0x02, 0x03, 0x04, 0x08, 0x05];

fn decode(v: u8) -> SubDeviceState {
    match v {
        0 => SubDeviceState::None,
        1 => SubDeviceState::Init,
        2 => SubDeviceState::PreOp,
        3 => SubDeviceState::Bootstrap,
        4 => SubDeviceState::SafeOp,
        8 => SubDeviceState::Op,
        x => SubDeviceState::Other(x),
    }
}

fn run_summary(n: usize, thorough: bool) -> (u64, Vec<(String, String)>, BTreeMap<String, u64>) {
    let devs: Vec<Device> = (0..n).map(|i| Device::new(simple_io(0x3000 + i as u32, &[8], &[]).image())).collect();
    let mut net = Net::new(Segment::new(devs));
    let md = net.md();
    let mut viol: Vec<(String, String)> = Vec::new();
    let mut outcomes = BTreeMap::new();
    let g = match net.run(async move {
        let g = md.init_single_group::<4, 32>(|| 0).await?;
        g.into_op(md).await
    }) {
        Ok(Ok(g)) => g,
        _ => return (0, vec![("setup-failed".into(), "healthy bring-up failed".into())], outcomes),
    };
    let _ = thorough;
    let total = STATE_VALUES.len().pow(n as u32);
    let mut evals = 0u64;
    for m in 0..total {
        let mut vec = Vec::new();
        let mut x = m;
        for _ in 0..n {
            vec.push(STATE_VALUES[x % STATE_VALUES.len()]);
            x /= STATE_VALUES.len();
        }
        {
            let mut seg = net.seg.borrow_mut();
            for (i, v) in vec.iter().enumerate() {
                seg.devices[i].mem[R_AL_STATUS] = *v;
            }
        }
        let gref = &g;
        let r = net.run(async move { gref.tx_rx(md).await });
        evals += 1;
        let resp = match r {
            Ok(Ok(r)) => r,
            o => {
                viol.push(("cycle-failed".into(), format!("tx_rx failed with states {:x?}: {:?}", vec, o.map(|r| r.map(|_| ())))));
                continue;
            }
        };
        let want: Vec<SubDeviceState> = vec.iter().map(|v| decode(*v)).collect();
        if resp.subdevice_states.as_slice() != want.as_slice() {
            viol.push(("state-list-wrong".into(), format!("devices report {:x?} but the cycle lists {:?}", vec, resp.subdevice_states)));
            continue;
        }
        let all_same = want.iter().all(|s| *s == want[0]);
        // reference predicates over the reported vector
        let ref_single = if all_same { Some(want[0]) } else { None };
        let ref_all_op = want.iter().all(|s| *s == SubDeviceState::Op);
        let got_single = resp.group_in_single_state();
        if got_single != ref_single {
            let cls = if want.iter().any(|s| *s == SubDeviceState::None) && !all_same { "none-is-invisible" } else if want.iter().any(|s| matches!(s, SubDeviceState::Bootstrap | SubDeviceState::Other(_))) { "bootstrap-or-other" } else { "standard-states" };
            viol.push((format!("single-state-summary-wrong class={}", cls), format!("devices report {:?}; group_in_single_state() = {:?}, expected {:?}", want, got_single, ref_single)));
        }
        if resp.all_op() != ref_all_op {
            let cls = if want.iter().any(|s| *s == SubDeviceState::None) { "none-is-invisible" } else { "other" };
            viol.push((format!("all-op-summary-wrong class={}", cls), format!("devices report {:?}; all_op() = {}, expected {}", want, resp.all_op(), ref_all_op)));
        }
        for q in STATE_VALUES.iter().map(|v| decode(*v)) {
            let ref_in = want.iter().all(|s| *s == q);
            let got = resp.is_in_state(q);
            if got != ref_in {
                let cls = if q == SubDeviceState::Bootstrap {
                    "bootstrap-documented-always-false"
                } else if want.iter().any(|s| *s == SubDeviceState::None) && q != SubDeviceState::None {
                    "none-is-invisible"
                } else if matches!(q, SubDeviceState::Other(_)) {
                    "other-matches-mixture"
                } else {
                    "standard-states"
                };
                viol.push((format!("is-in-state-summary-wrong class={}", cls), format!("devices report {:?}; is_in_state({:?}) = {}, expected {}", want, q, got, ref_in)));
            }
        }
        *outcomes.entry(format!("summary n={}", n)).or_insert(0) += 1;
    }
    (evals, viol, outcomes)
}

/// "The per-cycle state list says exactly what the devices reported", for groups whose status
/// reads need 1..=4 frames in each of the three cycle calls: C07's cycle harness (segment simulator,
/// wire log) is reused and only its state-list clauses are judged here.
fn cycle_state_lists(thorough: bool) -> (u64, Vec<(String, String)>) {
    use crate::checks::c07::{run_layout, Layout, Variant};
    let mut n = 0u64;
    let mut viol: Vec<(String, String)> = Vec::new();
    let counts: &[usize] = if thorough { &[1, 2, 3, 5, 6, 7, 8] } else { &[2, 5, 8] };
    for &devs in counts {
        for second_group in [false, true] {
            let layout = Layout { devs: (0..devs).map(|k| (1 + k % 2, k % 2)).collect(), second_group };
            for variant in [Variant::Plain, Variant::Dc, Variant::SyncRef, Variant::SyncNoRef] {
                // 44-byte frames carry two status reads, 64-byte frames three, 1100 all of them
                let r = run_layout(&layout, variant, &[44, 50, 64, 1100]);
                n += r.cycles;
                for (sig, msg) in r.viol {
                    if sig.starts_with("state-") && !viol.iter().any(|v| v.0 == sig) {
                        viol.push((format!("cycle-{}", sig), format!("{} [{:?}, {} devices]", msg, variant, devs)));
                    }
                }
            }
        }
    }
    (n, viol)
}

pub fn c10(tier: &Tier) -> Result<i32, String> {
    let mut rep = Report::new("C10", "fault_enumeration", tier);
    rep.rule = "networks of 1..=N simulated SubDevices split over the group under test and another group in every way; for each of the 7 transitions every vector of per-device AL scripts from {accept at once, after 1 poll, after 2 polls, refuse with status code, stall forever, accept then fall back after 3 further status reads, accept then fall back after 1, accept then fall back two datagrams later whoever is addressed} on the members (healthy non-members), plus the script on the intermediate SAFE-OP step of into_op; summary predicates: every vector of reported states over {None,Init,PreOp,Bootstrap,SafeOp,Op,Other(5)} for 1..=M devices; the state list of every cycle call (tx_rx, tx_rx_dc, tx_rx_sync_system_time with and without reference) for groups of 2, 5 and 8 devices (1..=8 thorough) with frames that carry 2, 3 or all status reads; non-trivial = at least two devices or a non-accepting script".into();
    rep.assumptions = vec![
        "segment simulator AL state machine: FPWR leaves datagram data unchanged (as hardware does), a refusing device keeps its state and raises the error bit + status code".into(),
        "virtual time, state-transition timeout 5 ms, PDU timeout 300 us, 10 us per frame; 'within the transition timeout' is checked with 4.8 ms slack for configuration frames and the final poll".into(),
        "request_into_op is documented not to wait; for it only the request-routing clauses are judged".into(),
    ];
    let nmax = if tier.thorough { 4 } else { 3 };
    let mmax = if tier.thorough { 4 } else { 3 };
    let mut cases: Vec<Case> = Vec::new();
    for n in 1..=nmax {
        for mask in 1..(1u32 << n) {
            let member: Vec<bool> = (0..n).map(|i| mask & (1 << i) != 0).collect();
            // keep it bounded: for n == nmax only the full group and one split
            if n >= 3 && mask != (1 << n) - 1 && mask != 0b101 && !tier.thorough {
                continue;
            }
            let members: Vec<usize> = (0..n).filter(|i| member[*i]).collect();
            let k = members.len();
            for t in TRANS {
                for v in 0..SCRIPTS.len().pow(k as u32) {
                    let mut scripts = vec![Script::Accept0; n];
                    let mut x = v;
                    for mi in &members {
                        scripts[*mi] = SCRIPTS[x % SCRIPTS.len()];
                        x /= SCRIPTS.len();
                    }
                    cases.push(Case { member: member.clone(), trans: t, scripts: scripts.clone(), on_intermediate: false, frame: 1100 });
                    // the same with frames that hold only two status checks: the group's status
                    // poll then needs 2 (3 members) or 3 (5 members) frames
                    if k >= 3 {
                        cases.push(Case { member: member.clone(), trans: t, scripts: scripts.clone(), on_intermediate: false, frame: 44 });
                    }
                    if t == Trans::PreOpToOp && scripts.iter().any(|s| *s != Script::Accept0) {
                        cases.push(Case { member: member.clone(), trans: t, scripts, on_intermediate: true, frame: 1100 });
                    }
                }
            }
        }
    }
    // five members, frames of two status checks: three status frames; one deviating member at
    // every position with every script
    for pos in 0..5usize {
        for sc in SCRIPTS {
            for t in [Trans::PreOpToSafeOp, Trans::SafeOpToOp, Trans::PreOpToInit] {
                let mut scripts = vec![Script::Accept0; 5];
                scripts[pos] = sc;
                cases.push(Case { member: vec![true; 5], trans: t, scripts, on_intermediate: false, frame: 44 });
            }
        }
    }
    let workers = crate::core::workers();
    let next = std::sync::atomic::AtomicUsize::new(0);
    type Out = (u64, u64, BTreeMap<String, u64>, Vec<(String, String, String)>);
    let outs: Vec<Out> = std::thread::scope(|s| {
        let hs: Vec<_> = (0..workers)
            .map(|w| {
                let cases = &cases;
                let next = &next;
                s.spawn(move || {
                    let mut n = 0u64;
                    let mut nt = 0u64;
                    let mut outcomes: BTreeMap<String, u64> = BTreeMap::new();
                    let mut viol: Vec<(String, String, String)> = Vec::new();
                    loop {
                        let i = next.fetch_add(1, std::sync::atomic::Ordering::SeqCst);
                        if i >= cases.len() {
                            break;
                        }
                        let c = &cases[i];
                        // baseline: the same transition with every member accepting at once
                        let healthy = Case { scripts: vec![Script::Accept0; c.member.len()], on_intermediate: false, ..c.clone() };
                        let (_, _, healthy_us) = run_case(&healthy, 0);
                        let (key, v, _el) = run_case(c, healthy_us.max(1));
                        n += 1;
                        if c.member.len() >= 2 || c.scripts.iter().any(|s| *s != Script::Accept0) {
                            nt += 1;
                        }
                        *outcomes.entry(key).or_insert(0) += 1;
                        for (s, m) in v {
                            if !viol.iter().any(|x| x.0 == s) {
                                viol.push((s, m, format!("{:?}", c)));
                            }
                        }
                    }
                    if w < mmax {
                        let (e, v, o) = run_summary(w + 1, false);
                        n += e;
                        nt += e;
                        for (k, c) in o {
                            *outcomes.entry(k).or_insert(0) += c;
                        }
                        for (s, m) in v {
                            if !viol.iter().any(|x| x.0 == s) {
                                viol.push((s, m, format!("summary predicates, {} devices", w + 1)));
                            }
                        }
                    }
                    (n, nt, outcomes, viol)
                })
            })
            .collect();
        hs.into_iter().map(|h| h.join().expect("c10 worker")).collect()
    });
    for (n, nt, outcomes, viol) in outs {
        rep.evaluations += n;
        rep.nontrivial += nt;
        for (k, v) in outcomes {
            *rep.outcomes.entry(k).or_insert(0) += v;
        }
        for (s, m, c) in viol {
            rep.violation(&s, &format!("{} [{}]", m, c), json!({"engine": "c10", "case": c}));
        }
    }
    {
        let (n, viol) = cycle_state_lists(tier.thorough);
        rep.evaluations += n;
        rep.nontrivial += n;
        *rep.outcomes.entry("cycle state list checked".into()).or_insert(0) += n;
        for (s, m) in viol {
            rep.violation(&s, &m, json!({"engine": "c10", "case": m}));
        }
    }
    rep.states = rep.evaluations;
    rep.transitions = rep.evaluations;
    rep.samples.push(json!(format!("{:?}", cases[cases.len() / 2])));
    rep.samples.push(json!(format!("{:?}", cases[cases.len() - 1])));
    Ok(rep.finish())
}
