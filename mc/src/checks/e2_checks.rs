//! C03 (capacity is never lost) and C05 (receive path survives any bytes): explicit-state search
//! over operation histories of the real PDU loop.

use crate::e2::{bfs, build, Op};
use crate::report::{Report, Tier};
use ethercrab::ReceiveAction;
use serde_json::json;

const ASSUME: &[&str] = &[
    "E2 part: operations run to completion one after another (histories, not interleavings; a send is atomic, so the abandon-while-sending window of C06 cannot arise); E1 part (harnesses c03-e1-*): expiry / drop of the future at every scheduling point inside send and receive, capacity clause only",
    "ethercrab built without its std feature; deadlines fire only through the explicit `tick` operation of the virtual clock",
    "storage of N in {1,2,4} slots with 64-byte frames, at most K live handles, at most 2 responses in flight (oldest dropped = loss)",
    "canonical state = all fields of every slot (status, first_pdu, payload length, buffer), frame_idx mod N, pdu_idx, every live handle (kind, slot, retries, deadline order, wake flag), in-flight responses; absolute time abstracted to deadline order",
];

pub fn c03(tier: &Tier) -> Result<i32, String> {
    let mut rep = Report::new("C03", "model_checking", tier);
    rep.rule = "breadth-first search over operation histories (alloc, push, mark_sendable(retries 0/1), poll, tx ok/partial/error, rx genuine/duplicate/garbage, tick, drop of any handle, read, reset) with canonical-state deduplication; every transition is executed on the real code by rebuilding a fresh storage and replaying the history; the drain-and-reallocate probe runs after every transition; non-trivial = a state in which at least one slot is not free".into();
    rep.assumptions = ASSUME.iter().map(|s| s.to_string()).collect();
    let plan: Vec<(usize, usize, usize, u64)> = if tier.thorough {
        vec![(1, 2, 12, 400_000), (2, 3, 10, 600_000), (4, 3, 8, 400_000)]
    } else {
        vec![(1, 2, 16, 60_000), (2, 2, 12, 60_000), (4, 2, 9, 30_000)]
    };
    let mut runs = Vec::new();
    for (n, k, depth, cap) in plan {
        let visit = |_hist: &[Op], m: crate::e2::Machine| -> Vec<(String, String)> {
            match m.probe() {
                Ok(()) => Vec::new(),
                Err((s, msg)) => vec![(s, msg)],
            }
        };
        let t = std::time::Instant::now();
        let (st, viol) = bfs(n, k, depth, cap, crate::core::workers(), &visit);
        // determinism check: a second search with a different worker count must agree
        let (st2, _) = bfs(n, k, depth.min(6), cap, 3, &visit);
        let (st3, _) = bfs(n, k, depth.min(6), cap, 1, &visit);
        if st2.states != st3.states || st2.transitions != st3.transitions {
            return Err(format!(
                "E2 search is not deterministic: {} vs {} states with different worker counts",
                st2.states, st3.states
            ));
        }
        println!(
            "  N={} K={} depth {}: {} states, {} transitions, {} slot-state combinations, complete={} {:.1}s",
            n, k, st.depth_completed, st.states, st.transitions, st.slot_state_combinations, st.complete, t.elapsed().as_secs_f64()
        );
        rep.evaluations += st.transitions;
        rep.states += st.states;
        rep.transitions += st.transitions;
        rep.nontrivial += st.states.saturating_sub(1);
        if !st.complete {
            rep.exhaustive = false;
            rep.caps.push(format!("N={} state cap {} reached at depth {}", n, cap, st.depth_completed));
        }
        runs.push(json!({"slots": n, "max_live_handles": k, "depth_completed": st.depth_completed, "states": st.states,
            "transitions": st.transitions, "states_per_depth": st.per_depth, "slot_state_combinations": st.slot_state_combinations,
            "transitions_by_operation": st.ops_by_kind, "complete_within_depth": st.complete}));
        if rep.samples.len() < 3 {
            if let Some(h) = st.all_states.iter().rev().find(|h| h.len() >= 4) {
                rep.samples.push(json!({"slots": n, "history": h.iter().map(|o| format!("{:?}", o)).collect::<Vec<_>>(),
                    "final_slots": build(n, k, h).describe_slots()}));
            }
        }
        for (sig, msg, hist) in viol {
            let replay = json!({"engine": "e2", "slots": n, "max_handles": k, "check": "C03",
                "history": hist.iter().map(|o| format!("{:?}", o)).collect::<Vec<_>>()});
            rep.violation(&sig, &format!("{} [history {:?}]", msg, hist), replay);
        }
    }
    rep.extra.insert("searches".into(), json!(runs));
    // The slot states Sending and RxBusy exist only while the transmit / receive side is inside one
    // call: "future drops in every reachable slot state" is completed with the controlled
    // scheduler (capacity clause only).
    if rep.unknown.is_empty() {
        let known = crate::report::Known::load();
        for (h, bounds) in crate::checks::e1_checks::c03_harnesses(tier.thorough) {
            let lim = crate::core::Limits {
                max_executions: u64::MAX,
                max_wall: std::time::Duration::from_secs(if tier.thorough { 300 } else { 120 }),
                workers: crate::core::workers(),
            };
            let is_known = |s: &str| known.find("C03", s).is_some();
            let st = crate::core::explore_iterative(&h, &bounds, &lim, tier.seed, &is_known)?;
            println!(
                "  {:<32} bound {:?}: {} executions, {} states, {} outcomes, {:.1}s{}",
                crate::core::Harness::name(&h),
                st.bound_completed.map(|b| (b.preempt, b.env)),
                st.executions,
                st.states,
                st.outcomes.len(),
                st.wall_s,
                st.cap_hit.as_ref().map(|c| format!(" CAP: {}", c)).unwrap_or_default()
            );
            rep.absorb(&h, &st)?;
            if !rep.unknown.is_empty() {
                break;
            }
        }
    }
    Ok(rep.finish())
}

/// Structure-aware input alphabet for one state: frames derived from a valid response to each
/// outstanding request and from an unrelated valid frame.
fn c05_inputs(base: &[u8], thorough: bool) -> Vec<(String, Vec<u8>)> {
    let mut v: Vec<(String, Vec<u8>)> = Vec::new();
    v.push(("valid".into(), base.to_vec()));
    // every truncation
    for l in 0..base.len() {
        v.push((format!("trunc{}", l), base[..l].to_vec()));
    }
    // oversize (beyond the 64-byte slot) and padded
    for extra in [1usize, 4, 46, 60, 1500] {
        let mut b = base.to_vec();
        b.extend(std::iter::repeat(0u8).take(extra));
        v.push((format!("pad{}", extra), b));
    }
    // every single byte of the first 28 replaced by boundary values (all values for header bytes)
    for pos in 0..base.len().min(28) {
        let vals: Vec<u8> = if (12..=17).contains(&pos) || thorough {
            (0..=255).collect()
        } else {
            vec![0x00, 0x01, 0x7f, 0x80, 0xfe, 0xff, base[pos] ^ 1, base[pos].wrapping_add(1)]
        };
        for val in vals {
            if val == base[pos] {
                continue;
            }
            let mut b = base.to_vec();
            b[pos] = val;
            v.push((format!("byte{}={:#04x}", pos, val), b));
        }
    }
    // EtherCAT frame length field: all 0..=2047, with and without matching padding
    for len in 0u16..=2047 {
        let mut b = base.to_vec();
        let hdr = (u16::from_le_bytes([b[14], b[15]]) & !0x07ff) | len;
        b[14..16].copy_from_slice(&hdr.to_le_bytes());
        v.push((format!("framelen{}", len), b.clone()));
        if len <= 130 || len % 64 == 0 || len > 2040 {
            b.resize(16 + len as usize, 0);
            v.push((format!("framelen{}+padded", len), b));
        }
    }
    // datagram length field boundaries
    for len in [0u16, 1, 2, 3, 36, 37, 48, 100, 1486, 2047] {
        for flags in [0u16, 0x8000, 0x4000] {
            let mut b = base.to_vec();
            b[22..24].copy_from_slice(&(len | flags).to_le_bytes());
            v.push((format!("pdulen{}|{:#06x}", len, flags), b));
        }
    }
    // own source address (echo), other ethertypes
    let mut b = base.to_vec();
    b[6..12].copy_from_slice(&[0x10; 6]);
    v.push(("own-source".into(), b));
    for et in [0x0800u16, 0x88a5, 0x0000, 0xffff, 0xa488] {
        let mut b = base.to_vec();
        b[12..14].copy_from_slice(&et.to_be_bytes());
        v.push((format!("ethertype{:#06x}", et), b));
    }
    v
}

pub fn c05(tier: &Tier) -> Result<i32, String> {
    let mut rep = Report::new("C05", "model_checking", tier);
    rep.rule = "every canonical state of the PDU loop reachable within the history depth bound (E2 search) x a structure-aware frame alphabet derived from the valid response to each request awaiting a response, from each in-flight response and from an unrelated valid frame: every truncation, padding/oversize, every header byte over all 256 values (boundary values elsewhere in the first 28 bytes), EtherCAT length field 0..=2047, first datagram index 0..=255, datagram length/flag boundaries, own source MAC, foreign ethertypes; non-trivial = (state, frame) pair where the state has at least one non-free slot".into();
    rep.assumptions = ASSUME.iter().map(|s| s.to_string()).collect();
    rep.assumptions.push("'any bytes' is decided for this structured alphabet (single-field perturbations of well-formed frames; pairs in the thorough tier only for index x length), not for all byte strings".into());
    let plan: Vec<(usize, usize, usize, u64)> = if tier.thorough {
        vec![(1, 2, 12, 4000), (2, 2, 10, 12000), (4, 2, 7, 3000)]
    } else {
        vec![(1, 2, 10, 500), (2, 2, 8, 2500), (4, 2, 6, 400)]
    };
    let no_visit = |_h: &[Op], _m: crate::e2::Machine| -> Vec<(String, String)> { Vec::new() };
    let mut runs = Vec::new();
    for (n, k, depth, cap) in plan {
        let t = std::time::Instant::now();
        let (st, _) = bfs(n, k, depth, cap, crate::core::workers(), &no_visit);
        let states: Vec<Vec<Op>> = st.all_states.clone();
        let workers = crate::core::workers();
        let chunk = ((states.len() + workers - 1) / workers).max(1);
        type Out = (u64, u64, std::collections::BTreeMap<String, u64>, Vec<(String, String, Vec<Op>, String)>);
        let thorough = tier.thorough;
        let outs: Vec<Out> = std::thread::scope(|s| {
            let hs: Vec<_> = states
                .chunks(chunk)
                .map(|ch| {
                    s.spawn(move || {
                        let mut evals = 0u64;
                        let mut nontrivial = 0u64;
                        let mut results: std::collections::BTreeMap<String, u64> = Default::default();
                        let mut viol: Vec<(String, String, Vec<Op>, String)> = Vec::new();
                        for hist in ch {
                            let probe = build(n, k, hist);
                            let sent = probe.sent_slots();
                            let busy = probe.snapshot().slots.iter().any(|s| s.0 != 0);
                            // base frames: valid response for every outstanding request, in-flight
                            // responses, one unrelated valid frame
                            let mut bases: Vec<(String, Vec<u8>)> = Vec::new();
                            let snap = probe.snapshot();
                            for (slot, _idx) in &sent {
                                let buf = &snap.slots[*slot].3;
                                let len = 16 + snap.slots[*slot].2;
                                if let Some(r) = crate::e1::make_response(&buf[..len.min(buf.len())]) {
                                    bases.push((format!("resp-slot{}", slot), r));
                                }
                            }
                            for (i, f) in probe.wire.iter().enumerate() {
                                bases.push((format!("wire{}", i), f.bytes.clone()));
                            }
                            drop(probe);
                            {
                                let exp = crate::e1::expected_pdus(200, &crate::e1::Req::Read { len: 2 });
                                let f = crate::e1::encode_request(&exp, &[0x77]);
                                bases.push(("unrelated".into(), crate::e1::make_response(&f).unwrap()));
                            }
                            let mut inputs: Vec<(String, Vec<u8>)> = Vec::new();
                            for (bn, b) in &bases {
                                for (iname, bytes) in c05_inputs(b, thorough) {
                                    inputs.push((format!("{}:{}", bn, iname), bytes));
                                }
                                // first datagram index: all 0..=255
                                for idx in 0..=255u8 {
                                    let mut x = b.clone();
                                    x[17] = idx;
                                    inputs.push((format!("{}:index{}", bn, idx), x.clone()));
                                    if thorough && idx % 16 == 0 {
                                        for len in [0u16, 1, 49, 2047] {
                                            let mut y = x.clone();
                                            let hdr = (u16::from_le_bytes([y[14], y[15]]) & !0x07ff) | len;
                                            y[14..16].copy_from_slice(&hdr.to_le_bytes());
                                            inputs.push((format!("{}:index{}+framelen{}", bn, idx, len), y));
                                        }
                                    }
                                }
                            }
                            for (iname, bytes) in inputs {
                                let mut m = build(n, k, hist);
                                let before = m.snapshot();
                                let raw_before = m.raw_memory();
                                let sent_before = m.sent_slots();
                                let res = m.receive(&bytes);
                                let after = m.snapshot();
                                let raw_after = m.raw_memory();
                                evals += 1;
                                if busy {
                                    nontrivial += 1;
                                }
                                let first_idx = bytes.get(17).copied();
                                let is_ecat = bytes.len() >= 14 && bytes[12] == 0x88 && bytes[13] == 0xa4;
                                let own = bytes.len() >= 12 && bytes[6..12] == [0x10; 6];
                                let mut bad: Option<(String, String)> = None;
                                match &res {
                                    Err(p) => bad = Some(("panic".into(), format!("receive_frame panicked: {}", p))),
                                    Ok(r) => {
                                        let key = match r {
                                            Ok(ReceiveAction::Ignored) => "ignored".to_string(),
                                            Ok(ReceiveAction::Processed) => "processed".to_string(),
                                            Err(e) => format!("err:{:?}", e).chars().take(40).collect(),
                                        };
                                        *results.entry(key).or_insert(0) += 1;
                                        let changed: Vec<usize> = (0..n).filter(|i| before.slots[*i] != after.slots[*i]).collect();
                                        let processed = matches!(r, Ok(ReceiveAction::Processed));
                                        // raw memory (headers, padding, wakers included) of every slot but the accepted one
                                        let raw_changed: Vec<usize> = (0..n).filter(|i| raw_before[*i] != raw_after[*i]).collect();
                                        let declared = if bytes.len() >= 16 { (u16::from_le_bytes([bytes[14], bytes[15]]) & 0x07ff) as usize } else { 0 };
                                        if processed && declared > 64 - 16 {
                                            bad = Some(("oversize-frame-accepted".into(), format!(
                                                "a frame declaring {} bytes of datagrams was accepted into a slot that holds {}: the copy writes outside the slot",
                                                declared, 64 - 16)));
                                        } else if raw_changed.iter().any(|i| !changed.contains(i)) {
                                            bad = Some(("memory-outside-slot-buffers-changed".into(), format!(
                                                "frame element memory of slots {:?} changed although only slots {:?} changed visibly ({:?})",
                                                raw_changed, changed, r)));
                                        }
                                        if bad.is_some() {
                                        } else if bytes.len() >= 14 && (!is_ecat || own) && !matches!(r, Ok(ReceiveAction::Ignored)) {
                                            bad = Some(("not-ignored".into(), format!("non-EtherCAT or own-source frame was not ignored: {:?}", r)));
                                        } else if processed {
                                            let ok = changed.len() == 1
                                                && sent_before.iter().any(|(s, idx)| *s == changed[0] && Some(*idx) == first_idx);
                                            if !ok {
                                                bad = Some(("accepted-into-wrong-slot".into(), format!(
                                                    "frame with first index {:?} was accepted; changed slots {:?}; slots awaiting a response were {:?}",
                                                    first_idx, changed, sent_before)));
                                            }
                                        } else {
                                            // not accepted: a frame matching no awaiting request must leave everything unchanged
                                            let matches_sent = sent_before.iter().any(|(_, idx)| Some(*idx) == first_idx);
                                            if !changed.is_empty() && !(matches_sent && changed.len() == 1
                                                && sent_before.iter().any(|(s, idx)| *s == changed[0] && Some(*idx) == first_idx)) {
                                                bad = Some(("rejected-frame-changed-state".into(), format!(
                                                    "frame was not accepted ({:?}) but slots {:?} changed (awaiting: {:?}, first index {:?})",
                                                    r, changed, sent_before, first_idx)));
                                            }
                                            if before.frame_idx != after.frame_idx || before.pdu_idx != after.pdu_idx {
                                                bad = Some(("rejected-frame-changed-counters".into(), "allocation counters changed".into()));
                                            }
                                        }
                                    }
                                }
                                if let Some((sig, msg)) = bad {
                                    if !viol.iter().any(|v| v.0 == sig) {
                                        viol.push((sig, format!("{} [input {}: {:02x?}]", msg, iname, &bytes[..bytes.len().min(48)]), hist.clone(), iname.clone()));
                                    }
                                }
                            }
                        }
                        (evals, nontrivial, results, viol)
                    })
                })
                .collect();
            hs.into_iter().map(|h| h.join().expect("c05 worker")).collect()
        });
        let mut evals = 0;
        for (e, nt, results, viol) in outs {
            evals += e;
            rep.nontrivial += nt;
            for (k2, v) in results {
                *rep.outcomes.entry(k2).or_insert(0) += v;
            }
            for (sig, msg, hist, iname) in viol {
                let replay = json!({"engine": "e2", "slots": n, "max_handles": k, "check": "C05", "input": iname,
                    "history": hist.iter().map(|o| format!("{:?}", o)).collect::<Vec<_>>()});
                rep.violation(&sig, &format!("{} [history {:?}]", msg, hist), replay);
            }
        }
        println!(
            "  N={} depth {}: {} states ({} slot-state combinations) x inputs = {} receive_frame calls, {:.1}s",
            n, st.depth_completed, st.states, st.slot_state_combinations, evals, t.elapsed().as_secs_f64()
        );
        rep.evaluations += evals;
        rep.states += st.states;
        rep.transitions += st.transitions + evals;
        if !st.complete {
            rep.caps.push(format!("N={}: state cap {} reached at depth {} (all states found so far were checked)", n, cap, st.depth_completed));
        }
        runs.push(json!({"slots": n, "depth_completed": st.depth_completed, "states": st.states, "slot_state_combinations": st.slot_state_combinations, "receive_calls": evals}));
        if rep.samples.len() < 2 {
            if let Some(h) = st.all_states.iter().rev().find(|h| h.len() >= 3) {
                rep.samples.push(json!({"state_history": h.iter().map(|o| format!("{:?}", o)).collect::<Vec<_>>(),
                    "slots": build(n, k, h).describe_slots(), "example_inputs": ["resp-slot0:trunc17", "resp-slot0:framelen2047+padded", "wire0:index255", "unrelated:byte12=0x08"]}));
            }
        }
    }
    rep.extra.insert("searches".into(), json!(runs));
    Ok(rep.finish())
}
