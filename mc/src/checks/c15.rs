//! C15: SDO transfers deliver exactly the object's bytes, whatever the transfer type.

use crate::checks::c09::{describe_device, DevCfg};
use crate::coe::{CoeServer, Inject, UploadMode};
use crate::net::{Net, Stop};
use crate::report::{Report, Tier};
use crate::sim::{Device, Segment};
use ethercrab::error::Error;
use ethercrab::{SubDeviceGroup, SubIndex};
use serde_json::json;
use std::collections::BTreeMap;

pub const SIZES: [usize; 47] = [
    0, 1, 2, 3, 4, 5, 6, 7, 8, 9, 10, 11, 12, 13, 14, 15, 16, 17, 18, 19, 20, 21, 22, 23, 24, 25, 26, 27, 28, 29, 30, 31, 32, 33, 34,
    35, 36, 37, 38, 39, 40, 63, 64, 65, 255, 256, 512,
];

macro_rules! read_exact_n {
    ($sd:expr, $idx:expr, $sub:expr, $n:expr; $($k:literal),*) => {
        match $n {
            $( $k => $sd.sdo_read::<[u8; $k]>($idx, $sub).await.map(|v| v.to_vec()), )*
            _ => unreachable!("size {} not instantiated", $n),
        }
    };
}

pub fn object_bytes(size: usize, salt: usize) -> Vec<u8> {
    (0..size).map(|i| 0x21 + ((i * 7 + salt * 13) % 90) as u8).collect()
}

/// One device with a CoE mailbox of `mbx` bytes, brought to PRE-OP.
pub fn bring_up(mbx: usize, prepare: impl FnOnce(&mut CoeServer)) -> Result<(Net, SubDeviceGroup<2, 32>), String> {
    bring_up2(mbx, mbx, prepare)
}

/// `mbx_in`: the device's receive (master write) mailbox, `mbx`: its send (master read) mailbox.
pub fn bring_up2(mbx_in: usize, mbx: usize, prepare: impl FnOnce(&mut CoeServer)) -> Result<(Net, SubDeviceGroup<2, 32>), String> {
    let cfg = DevCfg { stale_addr: 0, read8: true, named: true, mailbox: true, dc: 0, busy: 0 };
    let mut desc = describe_device(0, &cfg);
    if let Some(m) = desc.mailbox.as_mut() {
        m.rx_size = mbx_in as u16;
        m.tx_size = mbx as u16;
        m.rx_offset = 0x1800;
        m.tx_offset = 0x1c00;
    }
    for s in desc.sms.iter_mut() {
        if s.usage == 1 {
            s.len = mbx_in as u16;
        }
        if s.usage == 2 {
            s.len = mbx as u16;
        }
    }
    let mut dev = Device::new(desc.image());
    let mut coe = CoeServer::new(mbx);
    coe.od.insert((0x1c12, 0), vec![0]);
    coe.od.insert((0x1c13, 0), vec![0]);
    prepare(&mut coe);
    dev.coe = Some(coe);
    let mut net = Net::new(Segment::new(vec![dev]));
    let md = net.md();
    match net.run(async move { md.init_single_group::<2, 32>(|| 0).await }) {
        Ok(Ok(g)) => Ok((net, g)),
        o => Err(format!("bring-up with mailbox {} failed: {:?}", mbx, o.map(|r| r.map(|_| ())))),
    }
}

struct Acc {
    n: u64,
    nt: u64,
    outcomes: BTreeMap<String, u64>,
    viol: Vec<(String, String)>,
}

impl Acc {
    fn v(&mut self, sig: &str, msg: String) {
        if !self.viol.iter().any(|x| x.0 == sig) {
            self.viol.push((sig.to_string(), msg));
        }
    }
}

fn mode_name(m: UploadMode) -> String {
    match m {
        UploadMode::Auto => "auto".into(),
        UploadMode::Normal => "normal".into(),
        UploadMode::Segmented { first, seg } => format!("segmented(first {}, seg {})", first, seg),
    }
}

fn transfer_class(size: usize, mbx: usize, mode: UploadMode) -> &'static str {
    match mode {
        UploadMode::Auto if size <= 4 => "expedited",
        UploadMode::Segmented { .. } => "segmented",
        _ if size <= mbx.saturating_sub(16) => "normal",
        _ => "segmented",
    }
}

fn uploads(acc: &mut Acc, mbx: usize, sizes: &[usize], modes: &[UploadMode]) {
    for &mode in modes {
        for &size in sizes {
            if matches!(mode, UploadMode::Segmented { .. }) && size < 2 {
                continue;
            }
            let obj = object_bytes(size, mbx);
            let o2 = obj.clone();
            let (mut net, group) = match bring_up(mbx, move |c| {
                c.mode = mode;
                c.od.insert((0x2000, 3), o2);
            }) {
                Ok(x) => x,
                Err(e) => {
                    acc.v("setup-failed", e);
                    return;
                }
            };
            let md = net.md();
            let gref = &group;
            acc.n += 1;
            acc.nt += 1;
            let r = net.run(async move {
                let sd = gref.subdevice(md, 0)?;
                read_exact_n!(sd, 0x2000, 3u8, size; 0,1,2,3,4,5,6,7,8,9,10,11,12,13,14,15,16,17,18,19,20,21,22,23,24,25,26,27,28,29,30,31,32,33,34,35,36,37,38,39,40,63,64,65,255,256,512)
            });
            let class = transfer_class(size, mbx, mode);
            let what = format!("object of {} bytes, mailbox {}, device answers {} ({})", size, mbx, class, mode_name(mode));
            match r {
                Ok(Ok(got)) => {
                    *acc.outcomes.entry(format!("upload {} ok", class)).or_insert(0) += 1;
                    if got != obj {
                        acc.v(&format!("upload-wrong-bytes transfer={}", class), format!("read {:02x?}, the device holds {:02x?} [{}]", &got[..got.len().min(24)], &obj[..obj.len().min(24)], what));
                    }
                }
                Ok(Err(e)) => {
                    let es = format!("{:?}", e);
                    *acc.outcomes.entry(format!("upload {} err {}", class, es.chars().take(20).collect::<String>())).or_insert(0) += 1;
                    if size == 0 {
                        // a zero length object has no defined encoding in an upload response
                        continue;
                    }
                    acc.v(&format!("upload-failed transfer={} err={}", class, es.chars().take(28).collect::<String>()), format!("read failed with {} [{}]", es, what));
                }
                Err(Stop::Panic(p)) => acc.v(&format!("panic upload transfer={}", class), format!("sdo_read panicked: {} [{}]", p, what)),
                Err(s) => acc.v(&format!("upload-did-not-finish transfer={}", class), format!("{:?} [{}]", s, what)),
            }
            // the request the device saw
            let seg = net.seg.borrow();
            let coe = seg.devices[0].coe.as_ref().unwrap();
            if let Some(req) = coe.received.iter().rev().find(|r| r.command == 2) {
                if req.index != 0x2000 || req.sub != 3 || req.complete {
                    acc.v("upload-request-wrong-object", format!("device received an upload request for {:#06x}:{} complete={} instead of 0x2000:3", req.index, req.sub, req.complete));
                }
            }
        }
    }
}

fn typed_and_strings(acc: &mut Acc) {
    // primitive destination types, strings, complete access, downloads, arrays
    let (mut net, group) = match bring_up(64, |c| {
        c.od.insert((0x3000, 1), vec![0xa1]);
        c.od.insert((0x3000, 2), vec![0xb1, 0xb2]);
        c.od.insert((0x3000, 3), vec![0xc1, 0xc2, 0xc3, 0xc4]);
        c.od.insert((0x3000, 4), vec![0xd1, 0xd2, 0xd3, 0xd4, 0xd5, 0xd6, 0xd7, 0xd8]);
        c.od.insert((0x3001, 0), b"EL3004".to_vec());
        c.od.insert((0x3002, 0), b"A considerably longer device name string".to_vec());
        c.od.insert((0x3003, 1), vec![0x77, 0x66]);
        // array object: sub 0 = count, 1..=n entries
        c.od.insert((0x3010, 0), vec![3]);
        c.od.insert((0x3010, 1), vec![0x01, 0x10]);
        c.od.insert((0x3010, 2), vec![0x02, 0x20]);
        c.od.insert((0x3010, 3), vec![0x03, 0x30]);
        c.od.insert((0x3011, 0), vec![0]);
    }) {
        Ok(x) => x,
        Err(e) => {
            acc.v("setup-failed", e);
            return;
        }
    };
    let md = net.md();
    let gref = &group;
    let r = net.run(async move {
        let sd = gref.subdevice(md, 0)?;
        let mut out: Vec<(String, Result<String, String>)> = Vec::new();
        macro_rules! rec {
            ($name:expr, $e:expr) => {
                out.push(($name.to_string(), $e.map(|v| format!("{:?}", v)).map_err(|e| format!("{:?}", e))));
            };
        }
        rec!("u8", sd.sdo_read::<u8>(0x3000, 1).await);
        rec!("u16", sd.sdo_read::<u16>(0x3000, 2).await);
        rec!("u32", sd.sdo_read::<u32>(0x3000, 3).await);
        rec!("i32", sd.sdo_read::<i32>(0x3000, 3).await);
        rec!("u64", sd.sdo_read::<u64>(0x3000, 4).await);
        rec!("u16x2", sd.sdo_read::<[u16; 2]>(0x3000, 3).await);
        rec!("u32x2", sd.sdo_read::<[u32; 2]>(0x3000, 4).await);
        rec!("u8x4", sd.sdo_read::<[u8; 4]>(0x3000, 3).await);
        rec!("string6", sd.sdo_read::<heapless::String<16>>(0x3001, 0).await);
        rec!("string40", sd.sdo_read::<heapless::String<64>>(0x3002, 0).await);
        rec!("complete", sd.sdo_read::<u16>(0x3003, SubIndex::Complete).await);
        rec!("array3", sd.sdo_read_array::<u16, 4>(0x3010).await);
        rec!("array0", sd.sdo_read_array::<u16, 4>(0x3011).await);
        rec!("array-too-many", sd.sdo_read_array::<u16, 2>(0x3010).await);
        rec!("write-u8", sd.sdo_write(0x4000, 1, 0x5au8).await);
        rec!("write-u16", sd.sdo_write(0x4000, 2, 0x1234u16).await);
        rec!("write-u32", sd.sdo_write(0x4000, 3, 0xdeadbeefu32).await);
        rec!("write-3bytes", sd.sdo_write(0x4000, 4, [1u8, 2, 3]).await);
        rec!("write-complete", sd.sdo_write(0x4001, SubIndex::Complete, 0x0102u16).await);
        rec!("write-array", sd.sdo_write_array(0x4010, [0x1a00u16, 0x1a01, 0x1a02]).await);
        rec!("write-array-empty", sd.sdo_write_array::<u16>(0x4011, []).await);
        Ok::<_, Error>(out)
    });
    let out = match r {
        Ok(Ok(o)) => o,
        o => {
            acc.v("typed-batch-failed", format!("{:?}", o.map(|r| r.map(|_| ()))));
            return;
        }
    };
    let want: BTreeMap<&str, &str> = [
        ("u8", "Ok(\"161\")"),
        ("u16", "Ok(\"45745\")"),
        ("u32", "Ok(\"3301163713\")"),
        ("i32", "Ok(\"-993803583\")"),
        ("u64", "Ok(\"15625193646072255185\")"),
        ("u16x2", "Ok(\"[49857, 50371]\")"),
        ("u32x2", "Ok(\"[3570651857, 3638023893]\")"),
        ("u8x4", "Ok(\"[193, 194, 195, 196]\")"),
        ("string6", "Ok(\"\\\"EL3004\\\"\")"),
        ("string40", "Ok(\"\\\"A considerably longer device name string\\\"\")"),
        ("complete", "Ok(\"26231\")"),
        ("array3", "Ok(\"[4097, 8194, 12291]\")"),
        ("array0", "Ok(\"[]\")"),
        ("write-u8", "Ok(\"()\")"),
        ("write-u16", "Ok(\"()\")"),
        ("write-u32", "Ok(\"()\")"),
        ("write-3bytes", "Ok(\"()\")"),
        ("write-complete", "Ok(\"()\")"),
        ("write-array", "Ok(\"()\")"),
        ("write-array-empty", "Ok(\"()\")"),
    ]
    .into_iter()
    .collect();
    for (name, got) in &out {
        acc.n += 1;
        acc.nt += 1;
        let g = format!("{:?}", got);
        if let Some(w) = want.get(name.as_str()) {
            if g != *w {
                acc.v(&format!("typed-transfer-wrong case={}", name), format!("{}: got {}, expected {}", name, g, w));
            }
        } else if name == "array-too-many" && !g.contains("Capacity") {
            acc.v("array-capacity", format!("reading 3 entries into capacity 2: {}", g));
        }
    }
    // what the device received
    let seg = net.seg.borrow();
    let coe = seg.devices[0].coe.as_ref().unwrap();
    let dl: Vec<(u16, u8, bool, Vec<u8>)> = coe.downloads.clone();
    let want_dl: Vec<(u16, u8, bool, Vec<u8>)> = vec![
        (0x4000, 1, false, vec![0x5a]),
        (0x4000, 2, false, vec![0x34, 0x12]),
        (0x4000, 3, false, vec![0xef, 0xbe, 0xad, 0xde]),
        (0x4000, 4, false, vec![1, 2, 3]),
        (0x4001, 1, true, vec![0x02, 0x01]),
        (0x4010, 0, false, vec![0]),
        (0x4010, 1, false, vec![0x00, 0x1a]),
        (0x4010, 2, false, vec![0x01, 0x1a]),
        (0x4010, 3, false, vec![0x02, 0x1a]),
        (0x4010, 0, false, vec![3]),
        (0x4011, 0, false, vec![0]),
        (0x4011, 0, false, vec![0]),
    ];
    if dl != want_dl {
        acc.v("download-wrong", format!("the device received downloads {:x?}, expected {:x?}", dl, want_dl));
    }
    let up: Vec<(u16, u8, bool)> = coe.received.iter().filter(|r| r.command == 2 && r.index == 0x3003).map(|r| (r.index, r.sub, r.complete)).collect();
    if up != vec![(0x3003, 1, true)] {
        acc.v("complete-access-flag", format!("complete-access upload request seen by the device: {:x?}", up));
    }
    // mailbox counters cycle 1..=7 over all requests of this session
    let counters: Vec<u8> = coe.received.iter().map(|r| r.counter).collect();
    let mut ok = counters.iter().all(|c| (1..=7).contains(c));
    for w in counters.windows(2) {
        if w[1] != if w[0] >= 7 { 1 } else { w[0] + 1 } {
            ok = false;
        }
    }
    if !ok || counters.len() < 16 {
        acc.v("mailbox-counter", format!("mailbox counters of {} consecutive requests: {:?}", counters.len(), counters));
    }
}

const ABORTS: [u32; 31] = [
    0x0503_0000, 0x0504_0000, 0x0504_0001, 0x0504_0005, 0x0601_0000, 0x0601_0001, 0x0601_0002, 0x0601_0003, 0x0601_0004, 0x0601_0005,
    0x0601_0006, 0x0602_0000, 0x0604_0041, 0x0604_0042, 0x0604_0043, 0x0604_0047, 0x0606_0000, 0x0607_0010, 0x0607_0012, 0x0607_0013,
    0x0609_0011, 0x0609_0030, 0x0609_0031, 0x0609_0032, 0x0609_0036, 0x0800_0000, 0x0800_0020, 0x0800_0021, 0x0800_0022, 0x0800_0023,
    0x1234_5678,
];

fn error_paths(acc: &mut Acc) {
    for write in [false, true] {
        for &code in ABORTS.iter() {
            let (mut net, group) = match bring_up(64, move |c| {
                c.od.insert((0x2000, 1), vec![1, 2, 3, 4]);
                c.inject.push(Inject::Abort(code));
            }) {
                Ok(x) => x,
                Err(e) => {
                    acc.v("setup-failed", e);
                    return;
                }
            };
            let md = net.md();
            let gref = &group;
            acc.n += 1;
            acc.nt += 1;
            let r = net.run(async move {
                let sd = gref.subdevice(md, 0)?;
                if write {
                    sd.sdo_write(0x2000, 1, 7u32).await.map(|_| 0)
                } else {
                    sd.sdo_read::<u32>(0x2000, 1).await
                }
            });
            match r {
                Ok(Err(Error::Mailbox(ethercrab::error::MailboxError::Aborted { code: c, address, sub_index }))) => {
                    if u32::from(c) != code || address != 0x2000 || sub_index != 1 {
                        acc.v("abort-code-wrong", format!("device aborted with {:#010x} for 0x2000:1, reported {:?} ({:#010x}) {:#06x}:{}", code, c, u32::from(c), address, sub_index));
                    }
                    *acc.outcomes.entry("abort reported".into()).or_insert(0) += 1;
                }
                Ok(other) => acc.v("abort-not-reported", format!("device aborted with {:#010x}, the call returned {:?}", code, other)),
                Err(Stop::Panic(p)) => acc.v("panic abort", p),
                Err(s) => acc.v("abort-did-not-finish", format!("{:?}", s)),
            }
        }
    }
    // emergency, wrong object, too long
    let cases: Vec<(&str, Inject)> = vec![
        ("emergency", Inject::Emergency { code: 0x8130, register: 0x11 }),
        ("wrong-index", Inject::WrongObject { index: 0x2001, sub: 1 }),
        ("wrong-sub", Inject::WrongObject { index: 0x2000, sub: 2 }),
    ];
    for (name, inj) in cases {
        let inj2 = inj.clone();
        let (mut net, group) = match bring_up(64, move |c| {
            c.od.insert((0x2000, 1), vec![1, 2, 3, 4]);
            c.inject.push(inj2);
        }) {
            Ok(x) => x,
            Err(e) => {
                acc.v("setup-failed", e);
                return;
            }
        };
        let md = net.md();
        let gref = &group;
        acc.n += 1;
        acc.nt += 1;
        let r = net.run(async move {
            let sd = gref.subdevice(md, 0)?;
            sd.sdo_read::<u32>(0x2000, 1).await
        });
        let s = format!("{:?}", r);
        let ok = match name {
            // the statement asks for "an emergency error"; which fields it carries is not judged
            "emergency" => s.contains("Emergency") && !s.contains("Panic"),
            _ => s.contains("SdoResponseInvalid"),
        };
        *acc.outcomes.entry(format!("{} -> {}", name, s.chars().take(40).collect::<String>())).or_insert(0) += 1;
        if !ok {
            let panicked = s.contains("Panic");
            acc.v(&format!("{}-not-reported{}", name, if panicked { " panic" } else { "" }), format!("{}: the call returned {}", name, s));
        }
    }
    // object larger than the destination: normal and segmented
    for (mode, size) in [(UploadMode::Normal, 12usize), (UploadMode::Normal, 5), (UploadMode::Segmented { first: 4, seg: 7 }, 20)] {
        let (mut net, group) = match bring_up(64, move |c| {
            c.mode = mode;
            c.od.insert((0x2000, 1), object_bytes(size, 1));
        }) {
            Ok(x) => x,
            Err(e) => {
                acc.v("setup-failed", e);
                return;
            }
        };
        let md = net.md();
        let gref = &group;
        acc.n += 1;
        acc.nt += 1;
        let r = net.run(async move {
            let sd = gref.subdevice(md, 0)?;
            sd.sdo_read::<u32>(0x2000, 1).await
        });
        let s = format!("{:?}", r);
        if !s.contains("TooLong") {
            acc.v(&format!("too-long-not-reported mode={}", mode_name(mode).split('(').next().unwrap_or("")), format!("object of {} bytes read into a u32: {}", size, s));
        }
    }
    // stale data in the device's out mailbox before the request; equal and unequal sizes of the
    // two mailboxes (the send mailbox is only freed by a read that reaches its last byte)
    for (mbx_in, mbx_out) in [(64usize, 64usize), (64, 128), (128, 64), (24, 64), (64, 32)] {
        let (mut net, group) = match bring_up2(mbx_in, mbx_out, |c| {
            c.od.insert((0x2000, 1), vec![9, 8, 7, 6]);
        }) {
            Ok(x) => x,
            Err(e) => {
                acc.v("setup-failed", e);
                return;
            }
        };
        net.seg.borrow_mut().devices[0].coe.as_mut().unwrap().set_stale_out(vec![0x0a, 0, 0, 0, 0, 0x13, 0, 0x30, 0x43, 0x99, 0x99, 9, 0xff, 0xff, 0xff, 0xff]);
        let md = net.md();
        let gref = &group;
        acc.n += 1;
        acc.nt += 1;
        let r = net.run(async move {
            let sd = gref.subdevice(md, 0)?;
            sd.sdo_read::<u32>(0x2000, 1).await
        });
        if !matches!(r, Ok(Ok(0x06070809))) {
            acc.v(
                &format!("stale-mailbox-content {}", if mbx_in == mbx_out { "equal-sizes" } else if mbx_in < mbx_out { "write-mailbox-smaller" } else { "write-mailbox-larger" }),
                format!("with stale data in the out mailbox (write mailbox {} bytes, read mailbox {} bytes) the read returned {:?}, the object holds 0x06070809", mbx_in, mbx_out, r),
            );
        }
    }
}

pub fn c15(tier: &Tier) -> Result<i32, String> {
    let mut rep = Report::new("C15", "exploration", tier);
    rep.rule = "object sizes {0..=40,63,64,65,255,256,512} x mailbox sizes {16,17,24,32,64,128,1024} x upload modes {expedited/normal/segmented as the size dictates, forced normal, forced segmented with (first, segment) length patterns incl. every segment size 1..=8 and the < 7 byte last segment}; primitive, array and string destinations; complete access flag; expedited downloads of 1..=4 bytes; array helpers with 0 and 3 entries; every abort code on reads and writes; emergency; responses for another index / sub-index; objects larger than the destination; stale out-mailbox content with equal and unequal mailbox sizes; mailbox counters over the session; non-trivial = every transfer".into();
    rep.assumptions = vec![
        "CoE server written from ETG.1000.6 (/verif/mc/src/coe.rs): upload segment responses carry command specifier 0, the initial response of a segmented upload carries the first part of the data, segments shorter than 7 bytes are padded to 7 with the unused count in the header".into(),
        "a zero length object has no defined upload encoding and is not judged".into(),
    ];
    let mut acc = Acc { n: 0, nt: 0, outcomes: BTreeMap::new(), viol: Vec::new() };
    let mboxes: Vec<usize> = if tier.thorough { vec![16, 17, 24, 32, 64, 128, 1024] } else { vec![16, 24, 64, 1024] };
    let auto_sizes: Vec<usize> = SIZES.to_vec();
    for &mbx in &mboxes {
        uploads(&mut acc, mbx, &auto_sizes, &[UploadMode::Auto]);
        let small: Vec<usize> = SIZES.iter().copied().filter(|s| *s >= 1 && *s <= 24).collect();
        uploads(&mut acc, mbx, &small, &[UploadMode::Normal]);
    }
    // forced segmentation patterns on small objects
    let mut seg_modes = Vec::new();
    for first in [0usize, 1, 4, 7] {
        for seg in 1..=8usize {
            seg_modes.push(UploadMode::Segmented { first, seg });
        }
    }
    let seg_sizes: Vec<usize> = if tier.thorough { (2..=24).collect() } else { vec![2, 5, 7, 8, 13, 14, 15, 24] };
    uploads(&mut acc, 64, &seg_sizes, &seg_modes);
    typed_and_strings(&mut acc);
    error_paths(&mut acc);
    rep.evaluations = acc.n;
    rep.nontrivial = acc.nt;
    rep.outcomes = acc.outcomes;
    rep.states = acc.n;
    rep.transitions = acc.n;
    for (s, m) in acc.viol {
        rep.violation(&s, &m, json!({"engine": "c15", "detail": m}));
    }
    rep.samples.push(json!({"object_size": 13, "mailbox": 64, "mode": "segmented(first 4, seg 3)"}));
    rep.samples.push(json!({"abort_code": "0x06090011", "on": "sdo_write"}));
    Ok(rep.finish())
}
