//! C09: initialisation finds every SubDevice once and addresses each distinctly.

use crate::eeprom::{simple_io, Cat, DeviceDesc, MailboxDesc, SmDesc};
use crate::net::{Net, Stop};
use crate::report::{Report, Tier};
use crate::sim::{Device, Segment, R_ADDR};
use ethercrab::error::{Error, Item};
use ethercrab::{DcSupport, SubDeviceGroup};
use serde_json::json;
use std::collections::BTreeMap;

#[derive(Clone, Debug)]
pub struct DevCfg {
    pub stale_addr: u16,
    pub read8: bool,
    pub named: bool,
    pub mailbox: bool,
    /// 0 none, 1 ref only, 2 32-bit, 3 64-bit
    pub dc: u8,
    pub busy: u8,
}

#[derive(Clone, Debug)]
pub struct Case {
    pub devs: Vec<DevCfg>,
    /// group per device (0..3), 9 = filter rejects the device
    pub assign: Vec<u8>,
    pub max: usize,
}

pub fn describe_device(i: usize, c: &DevCfg) -> DeviceDesc {
    let mut d = simple_io(0x2000 + i as u32, &[8], &[8]);
    d.vendor = 0x0100 + i as u32;
    d.revision = 0x0300 + i as u32;
    d.serial = 0x0400 + i as u32;
    d.alias = 0x0500 + i as u16;
    d.strings = vec![format!("DEV{}", i).into_bytes(), format!("Device number {}", i).into_bytes()];
    if !c.named {
        d.order.retain(|c| *c != Cat::General);
    }
    if c.mailbox {
        d.mailbox = Some(MailboxDesc { rx_offset: 0x1800, rx_size: 64, tx_offset: 0x1c00, tx_size: 64, protocols: 0x04 });
        let mut sms = vec![
            SmDesc { start: 0x1800, len: 64, control: 0x26, enable: 1, usage: 1 },
            SmDesc { start: 0x1c00, len: 64, control: 0x22, enable: 1, usage: 2 },
        ];
        for s in d.sms.iter() {
            sms.push(s.clone());
        }
        d.sms = sms;
        for p in d.rx_pdos.iter_mut().chain(d.tx_pdos.iter_mut()) {
            p.sm += 2;
        }
        d.fmmus = vec![1, 2];
    }
    d
}

pub fn build_segment(case: &Case) -> (Segment, Vec<DeviceDesc>) {
    let mut devs = Vec::new();
    let mut descs = Vec::new();
    for (i, c) in case.devs.iter().enumerate() {
        let desc = describe_device(i, c);
        let mut dev = Device::new(desc.image());
        dev.mem[R_ADDR..R_ADDR + 2].copy_from_slice(&c.stale_addr.to_le_bytes());
        dev.sii.read8 = c.read8;
        dev.sii.busy_polls = c.busy;
        // 0 none, 1 reference only, 2 32 bit, 3 64 bit; 4 and 5: no DC, but the 'enhanced DC sync'
        // resp. '64 bit' flag of register 0x0008 is set nevertheless
        dev.dc.supported = (1..=3).contains(&c.dc);
        dev.dc.enhanced = c.dc == 2 || c.dc == 3 || c.dc == 4;
        dev.dc.bits64 = c.dc == 3 || c.dc == 5;
        if c.mailbox {
            let mut coe = crate::coe::CoeServer::new(64);
            // PDO assignment objects so that CoE configuration in later states works
            coe.od.insert((0x1c12, 0), vec![0]);
            coe.od.insert((0x1c13, 0), vec![0]);
            dev.coe = Some(coe);
        }
        devs.push(dev);
        descs.push(desc);
    }
    (Segment::new(devs), descs)
}

#[derive(Default)]
struct Groups<const MAX: usize> {
    g: [SubDeviceGroup<MAX, 64>; 3],
}

#[derive(Debug, Clone, PartialEq)]
pub enum InitOutcome {
    Ok { groups: Vec<Vec<u16>> },
    Err(String),
    Stop(String),
}

fn expected_dc(c: &DevCfg) -> DcSupport {
    match c.dc {
        0 | 4 | 5 => DcSupport::None,
        1 => DcSupport::RefOnly,
        2 => DcSupport::Bits32,
        _ => DcSupport::Bits64,
    }
}

fn run_case<const MAX: usize>(case: &Case) -> (InitOutcome, Vec<(String, String)>) {
    let (seg, descs) = build_segment(case);
    let mut net = Net::new(seg);
    let md = net.md();
    let assign = case.assign.clone();
    let n = case.devs.len();
    let mut viol: Vec<(String, String)> = Vec::new();
    let res = net.run(async move {
        let groups = md
            .init::<MAX, _>(
                || 123_456_789,
                Groups::<MAX>::default(),
                |groups, sd| {
                    let i = (sd.identity().product_id - 0x2000) as usize;
                    match assign.get(i).copied().unwrap_or(0) {
                        9 => Err(Error::UnknownSubDevice),
                        g => Ok(&groups.g[g as usize % 3]),
                    }
                },
            )
            .await?;
        // collect what the MainDevice recorded
        let mut out: Vec<Vec<(u16, [u32; 4], String, u16, DcSupport, Option<u16>)>> = Vec::new();
        for g in groups.g.iter() {
            let mut v = Vec::new();
            for sd in g.iter(md) {
                let id = sd.identity();
                v.push((
                    sd.configured_address(),
                    [id.vendor_id, id.product_id, id.revision, id.serial],
                    sd.name().to_string(),
                    sd.alias_address(),
                    sd.dc_support(),
                    sd.verif_parent_index(),
                ));
            }
            out.push(v);
        }
        Ok::<_, Error>((out, md.num_subdevices()))
    });
    let outcome = match res {
        Err(Stop::Panic(p)) => {
            viol.push(("panic".into(), format!("init panicked: {}", p)));
            InitOutcome::Stop(format!("panic {}", p))
        }
        Err(s) => {
            viol.push((
                format!("init-did-not-finish {:?}", std::mem::discriminant(&s)),
                format!("init did not finish: {:?}", s),
            ));
            InitOutcome::Stop(format!("{:?}", s))
        }
        Ok(Err(e)) => InitOutcome::Err(format!("{:?}", e)),
        Ok(Ok((groups, count))) => {
            if count != n {
                viol.push(("wrong-count".into(), format!("num_subdevices() = {} for a network of {}", count, n)));
            }
            let total: usize = groups.iter().map(|g| g.len()).sum();
            if total != n {
                viol.push(("devices-lost-or-duplicated".into(), format!("groups hold {} devices, network has {}", total, n)));
            }
            let mut seen = vec![0u32; n];
            for (gi, g) in groups.iter().enumerate() {
                for (addr, id, name, alias, dc, parent) in g {
                    let i = (id[1].wrapping_sub(0x2000)) as usize;
                    if i >= n {
                        viol.push(("identity-of-no-device".into(), format!("identity {:x?} belongs to no device", id)));
                        continue;
                    }
                    seen[i] += 1;
                    let d = &descs[i];
                    let c = &case.devs[i];
                    if *addr != 0x1000 + i as u16 {
                        viol.push(("wrong-configured-address".into(), format!("device at position {} recorded with address {:#06x}", i, addr)));
                    }
                    if *id != [d.vendor, d.product, d.revision, d.serial] {
                        viol.push(("identity-mixed".into(), format!("device {} recorded identity {:x?}, EEPROM holds {:x?}", i, id, [d.vendor, d.product, d.revision, d.serial])));
                    }
                    let want_name = if c.named {
                        format!("DEV{}", i)
                    } else {
                        format!("manu. {:#010x}, device {:#010x}, serial {:#010x}", d.vendor, d.product, d.serial)
                    };
                    if *name != want_name {
                        viol.push(("name-mixed".into(), format!("device {} recorded name {:?}, expected {:?}", i, name, want_name)));
                    }
                    if *alias != d.alias {
                        viol.push(("alias-mixed".into(), format!("device {} recorded alias {:#06x}, device holds {:#06x}", i, alias, d.alias)));
                    }
                    if *dc != expected_dc(c) {
                        viol.push(("dc-capability-mixed".into(), format!("device {} recorded DC support {:?}, device has {:?}", i, dc, expected_dc(c))));
                    }
                    let want_parent = if i == 0 { None } else { Some(i as u16 - 1) };
                    if *parent != want_parent {
                        viol.push(("ports-mixed".into(), format!("device {} (chain) got upstream neighbour {:?}, expected {:?}", i, parent, want_parent)));
                    }
                    if case.assign.get(i).copied().unwrap_or(0) % 3 != gi as u8 {
                        viol.push(("wrong-group".into(), format!("device {} ended up in group {}, the filter chose {}", i, gi, case.assign[i])));
                    }
                }
            }
            for (i, s) in seen.iter().enumerate() {
                if *s != 1 {
                    viol.push(("device-not-exactly-once".into(), format!("device {} appears {} times", i, s)));
                }
            }
            // the devices themselves
            let seg = net.seg.borrow();
            for (i, d) in seg.devices.iter().enumerate() {
                if d.station_address() != 0x1000 + i as u16 {
                    viol.push(("device-address-register".into(), format!("device {} holds station address {:#06x}", i, d.station_address())));
                }
                if d.al_state() != 0x02 {
                    viol.push(("not-pre-op".into(), format!("device {} is in AL state {:#04x} after init", i, d.al_state())));
                }
            }
            InitOutcome::Ok { groups: groups.iter().map(|g| g.iter().map(|x| x.0).collect()).collect() }
        }
    };
    // oracle on the error paths
    match &outcome {
        InitOutcome::Err(e) => {
            let rejects = case.assign.iter().take(n).any(|a| *a == 9);
            let group_overflow = {
                let mut cnt = [0usize; 3];
                for a in case.assign.iter().take(n) {
                    if *a != 9 {
                        cnt[*a as usize % 3] += 1;
                    }
                }
                cnt.iter().any(|c| *c > MAX)
            };
            if n > MAX {
                if !e.contains("Capacity") {
                    viol.push(("over-capacity-wrong-error".into(), format!("{} devices with capacity {}: {}", n, MAX, e)));
                }
            } else if rejects {
                if !e.contains("UnknownSubDevice") {
                    viol.push(("reject-wrong-error".into(), format!("filter rejected a device but init returned {}", e)));
                }
            } else if !group_overflow {
                viol.push((format!("init-failed {}", e.chars().take(40).collect::<String>()), format!("init of a healthy network failed: {}", e)));
            }
        }
        InitOutcome::Ok { .. } => {
            if n > MAX {
                viol.push(("over-capacity-accepted".into(), format!("{} devices were accepted with capacity {}", n, MAX)));
            }
            if case.assign.iter().take(n).any(|a| *a == 9) {
                viol.push(("rejected-device-accepted".into(), "the filter rejected a device but init succeeded".into()));
            }
        }
        _ => {}
    }
    let _ = Item::SubDevice;
    (outcome, viol)
}

fn run_dispatch(case: &Case) -> (InitOutcome, Vec<(String, String)>) {
    match case.max {
        2 => run_case::<2>(case),
        4 => run_case::<4>(case),
        _ => run_case::<8>(case),
    }
}

fn cases(thorough: bool) -> Vec<Case> {
    let mut v = Vec::new();
    let base = DevCfg { stale_addr: 0, read8: true, named: true, mailbox: false, dc: 0, busy: 0 };
    let maxes: &[usize] = if thorough { &[2, 4, 8] } else { &[2, 4] };
    // (a) every n in 0..=MAX+2
    for &max in maxes {
        for n in 0..=max + 2 {
            v.push(Case { devs: vec![base.clone(); n], assign: vec![0; n], max });
        }
    }
    // (b) stale station addresses in every arrangement, SII read size per device, n <= 3
    let stale = [0u16, 0x1000, 0x1001, 0xffff];
    for n in 1..=3usize {
        let combos = 4usize.pow(n as u32) * 2usize.pow(n as u32);
        for c in 0..combos {
            let mut devs = Vec::new();
            let mut x = c;
            for _ in 0..n {
                let s = stale[x % 4];
                x /= 4;
                let r8 = x % 2 == 0;
                x /= 2;
                devs.push(DevCfg { stale_addr: s, read8: r8, ..base.clone() });
            }
            v.push(Case { devs, assign: vec![0; n], max: 4 });
        }
    }
    // (c) feature mixes: named / mailbox / dc / busy polls, n <= 3 (n <= 4 thorough)
    let feat: Vec<DevCfg> = {
        let mut f = Vec::new();
        for named in [true, false] {
            for mailbox in [false, true] {
                for dc in [0u8, 1, 2, 3, 4, 5] {
                    for busy in [0u8, 2] {
                        f.push(DevCfg { stale_addr: 0x1000, read8: dc % 2 == 0, named, mailbox, dc, busy });
                    }
                }
            }
        }
        f
    };
    for a in 0..feat.len() {
        v.push(Case { devs: vec![feat[a].clone()], assign: vec![0], max: 2 });
        for b in (0..feat.len()).step_by(if thorough { 1 } else { 3 }) {
            v.push(Case { devs: vec![feat[a].clone(), feat[b].clone()], assign: vec![0, 1], max: 2 });
            if thorough || (a + b) % 5 == 0 {
                v.push(Case { devs: vec![feat[b].clone(), feat[a].clone(), feat[(a + b) % feat.len()].clone()], assign: vec![2, 0, 1], max: 4 });
            }
        }
    }
    // (d) group filters: every mapping of n <= 4 devices to 3 groups, plus one rejecting filter per position
    for n in 1..=4usize {
        for m in 0..3usize.pow(n as u32) {
            let mut assign = Vec::new();
            let mut x = m;
            for _ in 0..n {
                assign.push((x % 3) as u8);
                x /= 3;
            }
            v.push(Case { devs: vec![base.clone(); n], assign, max: 4 });
        }
        for r in 0..n {
            let mut assign = vec![0u8; n];
            assign[r] = 9;
            v.push(Case { devs: vec![base.clone(); n], assign, max: 4 });
        }
    }
    v
}

pub fn c09(tier: &Tier) -> Result<i32, String> {
    let mut rep = Report::new("C09", "exploration", tier);
    rep.rule = "simulated chains enumerated exhaustively in the stated bound: (a) every device count 0..=MAX+2 for each capacity, (b) every arrangement of stale station addresses {0,0x1000,0x1001,0xffff} x SII read size 4/8 for 1..=3 devices, (c) feature mixes name/mailbox/DC level (none, reference only, 32 bit, 64 bit, and no DC with the enhanced-sync or the 64-bit flag set)/busy polls, (d) every mapping of 1..=4 devices onto 3 groups plus a rejecting filter at every position; each case runs the real MainDevice::init against the segment simulator; non-trivial = at least two devices".into();
    rep.assumptions = vec![
        "segment simulator (/verif/mc/src/sim.rs) stands for the hardware; it is written from the ESC datasheet semantics and uses no ethercrab type".into(),
        "chains only (tree topologies are C17); capacities MAX in {2,4,8}; ethercrab built without std, virtual time, 10 us per frame".into(),
    ];
    let all = cases(tier.thorough);
    let workers = crate::core::workers();
    let next = std::sync::atomic::AtomicUsize::new(0);
    type Out = (u64, u64, BTreeMap<String, u64>, Vec<(String, String, Case)>, u64);
    let outs: Vec<Out> = std::thread::scope(|s| {
        let hs: Vec<_> = (0..workers)
            .map(|_| {
                let all = &all;
                let next = &next;
                s.spawn(move || {
                    let mut n = 0u64;
                    let mut nt = 0u64;
                    let mut frames = 0u64;
                    let mut outcomes: BTreeMap<String, u64> = BTreeMap::new();
                    let mut viol = Vec::new();
                    loop {
                        let i = next.fetch_add(1, std::sync::atomic::Ordering::SeqCst);
                        if i >= all.len() {
                            break;
                        }
                        let case = &all[i];
                        let (o, v) = run_dispatch(case);
                        n += 1;
                        frames += 1;
                        if case.devs.len() >= 2 {
                            nt += 1;
                        }
                        let key = match &o {
                            InitOutcome::Ok { groups } => format!("ok groups {:?}", groups.iter().map(|g| g.len()).collect::<Vec<_>>()),
                            InitOutcome::Err(e) => format!("err {}", e.chars().take(30).collect::<String>()),
                            InitOutcome::Stop(s) => format!("stop {}", s.chars().take(30).collect::<String>()),
                        };
                        *outcomes.entry(key).or_insert(0) += 1;
                        for (s, m) in v {
                            if !viol.iter().any(|x: &(String, String, Case)| x.0 == s) {
                                viol.push((s, m, case.clone()));
                            }
                        }
                    }
                    (n, nt, outcomes, viol, frames)
                })
            })
            .collect();
        hs.into_iter().map(|h| h.join().expect("c09 worker")).collect()
    });
    for (n, nt, outcomes, viol, _) in outs {
        rep.evaluations += n;
        rep.nontrivial += nt;
        for (k, v) in outcomes {
            *rep.outcomes.entry(k).or_insert(0) += v;
        }
        for (s, m, case) in viol {
            rep.violation(&s, &format!("{} [case {:?}]", m, case), json!({"engine": "c09", "case": format!("{:?}", case)}));
        }
    }
    rep.states = rep.evaluations;
    rep.transitions = rep.evaluations;
    rep.samples.push(json!(format!("{:?}", all[all.len() / 2])));
    rep.samples.push(json!(format!("{:?}", all[all.len() - 1])));
    Ok(rep.finish())
}
