//! vx-core: deviation-bounded stateless exploration of choice vectors.
//!
//! A *run* is a deterministic function of a choice vector. Harness code asks `ctx.choose(kind, n)`
//! at every nondeterministic point; answer 0 is the default. The explorer enumerates every choice
//! vector whose cost (preemptions / environment deviations) stays inside the bound, executing each
//! one to completion on the real implementation.

use std::collections::{BTreeMap, HashSet};
use std::sync::atomic::{AtomicBool, AtomicU64, AtomicUsize, Ordering};
use std::sync::Mutex;
use std::time::{Duration, Instant};

/// Kind of a choice point; decides what a non-default answer costs.
#[derive(Copy, Clone, Debug, PartialEq, Eq)]
pub enum Kind {
    /// Scheduling choice while the running task could continue: non-default = one preemption.
    Preempt,
    /// Scheduling choice after the running task blocked/finished: every answer is free.
    Free,
    /// Environment choice (fault, loss, timer, ordering): non-default = one deviation.
    Env,
}

#[derive(Copy, Clone, Debug)]
pub struct Choice {
    pub n: u16,
    pub chosen: u16,
    pub kind: Kind,
}

#[derive(Copy, Clone, Debug, PartialEq, Eq, PartialOrd, Ord)]
pub struct Bound {
    pub preempt: u32,
    pub env: u32,
    /// Bound on preemptions + environment deviations together.
    pub total: u32,
}

impl Bound {
    pub fn new(preempt: u32, env: u32) -> Self {
        Self {
            preempt,
            env,
            total: preempt + env,
        }
    }
    /// At most `total` deviations of either kind.
    pub fn total(total: u32) -> Self {
        Self {
            preempt: total,
            env: total,
            total,
        }
    }
}

fn cost_of(c: &Choice, alt: u16) -> (u32, u32) {
    if alt == 0 {
        return (0, 0);
    }
    match c.kind {
        Kind::Preempt => (1, 0),
        Kind::Free => (0, 0),
        Kind::Env => (0, 1),
    }
}

/// Per-execution context handed to a harness.
pub struct Ctx {
    prefix: Vec<u16>,
    pub rec: Vec<Choice>,
    /// Labelled trace, only recorded when `Some` (replay / sample collection).
    pub trace: Option<Vec<String>>,
    /// Hashes of canonical states visited (harness pushes them).
    pub state_hashes: Vec<u64>,
    pub transitions: u64,
    pub diverged: Option<String>,
}

impl Ctx {
    pub fn new(prefix: Vec<u16>, want_trace: bool) -> Self {
        Self {
            prefix,
            rec: Vec::with_capacity(128),
            trace: if want_trace { Some(Vec::new()) } else { None },
            state_hashes: Vec::new(),
            transitions: 0,
            diverged: None,
        }
    }

    /// Ask for a choice in `0..n`. `n <= 1` is not a choice point.
    pub fn choose(&mut self, kind: Kind, n: usize) -> usize {
        if n <= 1 {
            return 0;
        }
        let i = self.rec.len();
        let c = if i < self.prefix.len() {
            let v = self.prefix[i];
            if usize::from(v) >= n {
                // A prefix that does not fit the run it came from: the harness is not
                // deterministic. Hard machinery error, never a verdict.
                self.diverged = Some(format!(
                    "choice {} of prefix is {} but only {} alternatives exist",
                    i, v, n
                ));
                0
            } else {
                v
            }
        } else {
            0
        };
        self.rec.push(Choice {
            n: n as u16,
            chosen: c,
            kind,
        });
        usize::from(c)
    }

    #[inline]
    pub fn tracing(&self) -> bool {
        self.trace.is_some()
    }

    pub fn log(&mut self, f: impl FnOnce() -> String) {
        if let Some(t) = self.trace.as_mut() {
            t.push(f());
        }
    }

    pub fn choices(&self) -> Vec<u16> {
        self.rec.iter().map(|c| c.chosen).collect()
    }
}

/// A violation of a property clause observed in one execution.
#[derive(Clone, Debug)]
pub struct Violation {
    /// Cause class: specific call site / window / input shape. Matched against known findings.
    pub signature: String,
    pub message: String,
}

/// What one execution produced.
#[derive(Default, Clone, Debug)]
pub struct RunResult {
    pub violations: Vec<Violation>,
    /// Canonical description of the final observable outcome (for vacuity detection).
    pub outcome: String,
    /// Non-trivial by the harness' stated rule.
    pub nontrivial: bool,
}

pub trait Harness: Sync {
    fn name(&self) -> String;
    fn run(&self, ctx: &mut Ctx) -> RunResult;
    /// JSON parameters needed to rebuild this harness for a replay.
    fn params(&self) -> serde_json::Value {
        serde_json::Value::Null
    }
}

#[derive(Clone, Debug)]
pub struct FoundViolation {
    pub harness: String,
    pub params: serde_json::Value,
    pub signature: String,
    pub message: String,
    pub choices: Vec<u16>,
    pub bound: Bound,
}

#[derive(Default, Clone, Debug)]
pub struct ExploreStats {
    pub executions: u64,
    pub transitions: u64,
    pub states: u64,
    pub nontrivial: u64,
    pub choice_points_max: usize,
    pub outcomes: BTreeMap<String, u64>,
    pub complete: bool,
    pub bound_completed: Option<Bound>,
    pub cap_hit: Option<String>,
    pub violations: Vec<FoundViolation>,
    /// count of violating executions per signature
    pub violation_counts: BTreeMap<String, u64>,
    pub samples: Vec<serde_json::Value>,
    pub wall_s: f64,
}

pub struct Limits {
    pub max_executions: u64,
    pub max_wall: Duration,
    pub workers: usize,
}

impl Default for Limits {
    fn default() -> Self {
        Self {
            max_executions: u64::MAX,
            max_wall: Duration::from_secs(3600),
            workers: workers(),
        }
    }
}

pub fn workers() -> usize {
    std::env::var("VX_WORKERS")
        .ok()
        .and_then(|s| s.parse().ok())
        .unwrap_or_else(|| {
            std::thread::available_parallelism()
                .map(|n| n.get())
                .unwrap_or(4)
                .min(16)
        })
}

struct Shared {
    stack: Mutex<Vec<Vec<u16>>>,
    pending: AtomicUsize,
    executions: AtomicU64,
    stop: AtomicBool,
    machinery_error: Mutex<Option<String>>,
}

struct WorkerOut {
    transitions: u64,
    nontrivial: u64,
    states: HashSet<u64>,
    outcomes: BTreeMap<String, u64>,
    violations: BTreeMap<String, (FoundViolation, u64)>,
    choice_points_max: usize,
}

/// Explore every choice vector of `h` within `bound`. Returns statistics; `Err` is a machinery
/// error (nondeterminism detected), never a verdict.
pub fn explore_bound(
    h: &dyn Harness,
    bound: Bound,
    limits: &Limits,
    seed: u64,
) -> Result<ExploreStats, String> {
    let t0 = Instant::now();
    let shared = Shared {
        stack: Mutex::new(vec![Vec::new()]),
        pending: AtomicUsize::new(1),
        executions: AtomicU64::new(0),
        stop: AtomicBool::new(false),
        machinery_error: Mutex::new(None),
    };
    let nworkers = limits.workers.max(1);
    let outs: Vec<WorkerOut> = std::thread::scope(|s| {
        let mut hs = Vec::new();
        for w in 0..nworkers {
            let shared = &shared;
            hs.push(
                std::thread::Builder::new()
                    .stack_size(16 << 20)
                    .spawn_scoped(s, move || worker(h, bound, limits, shared, t0, w as u64 ^ seed))
                    .unwrap(),
            );
        }
        hs.into_iter().map(|h| h.join().expect("worker panicked")).collect()
    });
    if let Some(e) = shared.machinery_error.lock().unwrap().take() {
        return Err(e);
    }
    let mut st = ExploreStats::default();
    let mut states: HashSet<u64> = HashSet::new();
    let mut viol: BTreeMap<String, (FoundViolation, u64)> = BTreeMap::new();
    for o in outs {
        st.transitions += o.transitions;
        st.nontrivial += o.nontrivial;
        st.choice_points_max = st.choice_points_max.max(o.choice_points_max);
        if states.is_empty() {
            states = o.states;
        } else {
            states.extend(o.states);
        }
        for (k, v) in o.outcomes {
            *st.outcomes.entry(k).or_insert(0) += v;
        }
        for (k, (fv, n)) in o.violations {
            match viol.get_mut(&k) {
                None => {
                    viol.insert(k, (fv, n));
                }
                Some(e) => {
                    e.1 += n;
                    // keep the shortest / lexicographically least witness so output is stable
                    if (fv.choices.len(), &fv.choices) < (e.0.choices.len(), &e.0.choices) {
                        e.0 = fv;
                    }
                }
            }
        }
    }
    st.executions = shared.executions.load(Ordering::SeqCst);
    st.states = states.len() as u64;
    let stopped = shared.stop.load(Ordering::SeqCst);
    st.complete = !stopped;
    if stopped {
        st.cap_hit = Some(format!(
            "stopped after {} executions / {:.1}s inside bound {:?}",
            st.executions,
            t0.elapsed().as_secs_f64(),
            bound
        ));
    } else {
        st.bound_completed = Some(bound);
    }
    for (k, (fv, n)) in viol {
        st.violation_counts.insert(k, n);
        st.violations.push(fv);
    }
    st.wall_s = t0.elapsed().as_secs_f64();
    Ok(st)
}

fn worker(
    h: &dyn Harness,
    bound: Bound,
    limits: &Limits,
    shared: &Shared,
    t0: Instant,
    _seed: u64,
) -> WorkerOut {
    let mut out = WorkerOut {
        transitions: 0,
        nontrivial: 0,
        states: HashSet::new(),
        outcomes: BTreeMap::new(),
        violations: BTreeMap::new(),
        choice_points_max: 0,
    };
    let mut local: Vec<Vec<u16>> = Vec::new();
    let mut idle_spins = 0u32;
    loop {
        if shared.stop.load(Ordering::Relaxed) {
            // drain accounting so that other workers terminate too
            break;
        }
        let prefix = match local.pop() {
            Some(p) => p,
            None => {
                let mut g = shared.stack.lock().unwrap();
                let take = (g.len() / 2).clamp(1, 256).min(g.len());
                if take == 0 {
                    drop(g);
                    if shared.pending.load(Ordering::SeqCst) == 0 {
                        break;
                    }
                    idle_spins += 1;
                    if idle_spins > 50 {
                        std::thread::sleep(Duration::from_micros(200));
                    } else {
                        std::thread::yield_now();
                    }
                    continue;
                }
                let at = g.len() - take;
                local.extend(g.drain(at..));
                drop(g);
                idle_spins = 0;
                local.pop().unwrap()
            }
        };
        let plen = prefix.len();
        let mut ctx = Ctx::new(prefix, false);
        let res = h.run(&mut ctx);
        let nexec = shared.executions.fetch_add(1, Ordering::Relaxed) + 1;
        if ctx.diverged.is_none() && ctx.rec.len() < plen {
            ctx.diverged = Some(format!(
                "run consumed only {} of {} prefix choices",
                ctx.rec.len(),
                plen
            ));
        }
        if let Some(d) = ctx.diverged.take() {
            *shared.machinery_error.lock().unwrap() =
                Some(format!("harness {}: replay divergence: {}", h.name(), d));
            shared.stop.store(true, Ordering::SeqCst);
            break;
        }
        out.transitions += ctx.transitions;
        out.choice_points_max = out.choice_points_max.max(ctx.rec.len());
        for s in ctx.state_hashes.drain(..) {
            out.states.insert(s);
        }
        if res.nontrivial {
            out.nontrivial += 1;
        }
        *out.outcomes.entry(res.outcome).or_insert(0) += 1;
        if !res.violations.is_empty() {
            let choices = ctx.choices();
            for v in res.violations {
                let fv = FoundViolation {
                    harness: h.name(),
                    params: h.params(),
                    signature: v.signature.clone(),
                    message: v.message,
                    choices: choices.clone(),
                    bound,
                };
                match out.violations.get_mut(&v.signature) {
                    None => {
                        out.violations.insert(v.signature, (fv, 1));
                    }
                    Some(e) => {
                        e.1 += 1;
                        if (fv.choices.len(), &fv.choices) < (e.0.choices.len(), &e.0.choices) {
                            e.0 = fv;
                        }
                    }
                }
            }
        }
        // children
        let mut pre = 0u32;
        let mut env = 0u32;
        for c in &ctx.rec[..plen.min(ctx.rec.len())] {
            let (p, e) = cost_of(c, c.chosen);
            pre += p;
            env += e;
        }
        let mut pushed = 0usize;
        let mut spill: Vec<Vec<u16>> = Vec::new();
        for i in plen..ctx.rec.len() {
            let c = ctx.rec[i];
            for alt in 1..c.n {
                let (p, e) = cost_of(&c, alt);
                if pre + p <= bound.preempt
                    && env + e <= bound.env
                    && pre + p + env + e <= bound.total
                {
                    let mut child: Vec<u16> = Vec::with_capacity(i + 1);
                    child.extend(ctx.rec[..i].iter().map(|c| c.chosen));
                    child.push(alt);
                    spill.push(child);
                    pushed += 1;
                }
            }
            // the run itself took the default at i (cost 0) for i >= plen
        }
        if pushed > 0 {
            shared.pending.fetch_add(pushed, Ordering::SeqCst);
            // keep deeper children local (DFS), donate when the local stack grows
            local.extend(spill);
            if local.len() > 512 {
                let mut g = shared.stack.lock().unwrap();
                let keep = local.len() / 2;
                g.extend(local.drain(..keep));
            }
        }
        shared.pending.fetch_sub(1, Ordering::SeqCst);
        if nexec >= limits.max_executions || t0.elapsed() > limits.max_wall {
            shared.stop.store(true, Ordering::SeqCst);
        }
        // if others are starving and we have spare work, share it
        if local.len() > 1 {
            if let Ok(mut g) = shared.stack.try_lock() {
                if g.is_empty() {
                    let keep = local.len() / 2;
                    g.extend(local.drain(..keep));
                }
            }
        }
    }
    out
}

/// Iterative deviation bounding: run bounds in increasing order, stop at the first bound that
/// yields a violation whose signature is not in `known` (it is then minimal in that order), or at
/// a cap. Results of all completed bounds are merged; counts are those of the largest bound run.
pub fn explore_iterative(
    h: &dyn Harness,
    bounds: &[Bound],
    limits: &Limits,
    seed: u64,
    is_known: &dyn Fn(&str) -> bool,
) -> Result<ExploreStats, String> {
    let t0 = Instant::now();
    let mut last: Option<ExploreStats> = None;
    let mut completed: Option<Bound> = None;
    let mut all_viol: BTreeMap<String, FoundViolation> = BTreeMap::new();
    for &b in bounds {
        let remaining = limits.max_wall.saturating_sub(t0.elapsed());
        if remaining.is_zero() {
            if let Some(l) = last.as_mut() {
                l.cap_hit = Some(format!("wall budget exhausted before bound {:?}", b));
                l.complete = false;
            }
            break;
        }
        let lim = Limits {
            max_executions: limits.max_executions,
            max_wall: remaining,
            workers: limits.workers,
        };
        let mut st = explore_bound(h, b, &lim, seed)?;
        if std::env::var("VX_VERBOSE").is_ok() {
            eprintln!(
                "    [{}] bound {:?}: {} executions, {} states, complete={} {:.1}s",
                h.name(),
                b,
                st.executions,
                st.states,
                st.complete,
                st.wall_s
            );
        }
        for v in &st.violations {
            all_viol.entry(v.signature.clone()).or_insert_with(|| v.clone());
        }
        if st.complete {
            completed = Some(b);
        }
        st.bound_completed = completed;
        let unknown = st.violations.iter().any(|v| !is_known(&v.signature));
        let stop = unknown || !st.complete;
        last = Some(st);
        if stop {
            break;
        }
    }
    let mut st = last.unwrap_or_default();
    // report each signature with its earliest (smallest-bound) witness
    let counts = st.violation_counts.clone();
    st.violations = all_viol.into_values().collect();
    for v in &st.violations {
        st.violation_counts.entry(v.signature.clone()).or_insert(0);
    }
    let _ = counts;
    st.wall_s = t0.elapsed().as_secs_f64();
    Ok(st)
}

/// Execute one choice vector with tracing on. Returns (result, trace, recorded choices).
pub fn replay(h: &dyn Harness, choices: &[u16]) -> Result<(RunResult, Vec<String>, Vec<u16>), String> {
    let mut ctx = Ctx::new(choices.to_vec(), true);
    let res = h.run(&mut ctx);
    if let Some(d) = ctx.diverged.take() {
        return Err(format!("replay divergence: {}", d));
    }
    let tr = ctx.trace.take().unwrap_or_default();
    Ok((res, tr, ctx.choices()))
}

/// Replay-twice check: the same vector must give identical trace and outcome.
pub fn replay_twice(h: &dyn Harness, choices: &[u16]) -> Result<(RunResult, Vec<String>), String> {
    let (r1, t1, c1) = replay(h, choices)?;
    let (r2, t2, c2) = replay(h, choices)?;
    if t1 != t2 || c1 != c2 || r1.outcome != r2.outcome {
        let first = t1
            .iter()
            .zip(t2.iter())
            .position(|(a, b)| a != b)
            .unwrap_or(t1.len().min(t2.len()));
        return Err(format!(
            "nondeterminism: two replays of the same choice vector differ at trace line {} ({:?} vs {:?})",
            first,
            t1.get(first),
            t2.get(first)
        ));
    }
    Ok((r1, t1))
}

pub fn fnv(data: &[u8]) -> u64 {
    let mut h: u64 = 0xcbf29ce484222325;
    for b in data {
        h ^= u64::from(*b);
        h = h.wrapping_mul(0x100000001b3);
    }
    h
}

pub fn fnv_mix(h: u64, v: u64) -> u64 {
    let mut h = h;
    for b in v.to_le_bytes() {
        h ^= u64::from(b);
        h = h.wrapping_mul(0x100000001b3);
    }
    h
}

/// Run `f` on a helper thread and wait at most `limit`. `None` means the code under test is
/// spinning without ever yielding (it cannot be interrupted); the thread is left behind and dies
/// with the process.
pub fn run_with_deadline<T: Send + 'static>(
    limit: Duration,
    f: impl FnOnce() -> T + Send + 'static,
) -> Option<T> {
    let (tx, rx) = std::sync::mpsc::channel();
    std::thread::Builder::new()
        .stack_size(16 << 20)
        .spawn(move || {
            let r = f();
            let _ = tx.send(r);
        })
        .ok()?;
    rx.recv_timeout(limit).ok()
}
