//! Evidence files, known-findings protocol, replay artefacts, exit codes.

use crate::core::{ExploreStats, FoundViolation, Harness};
use serde_json::{json, Value};
use std::collections::{BTreeMap, BTreeSet};
use std::path::{Path, PathBuf};

pub fn verif_root() -> PathBuf {
    std::env::var("VERIF_ROOT")
        .map(PathBuf::from)
        .unwrap_or_else(|_| PathBuf::from("/verif"))
}

#[derive(Clone, Debug)]
pub struct KnownLine {
    pub property: String,
    pub sig: String,
    pub what: String,
}

pub struct Known {
    pub lines: Vec<KnownLine>,
}

impl Known {
    /// Parse `/verif/known_findings.txt`. Only `known:` lines suppress anything.
    pub fn load() -> Self {
        let p = verif_root().join("known_findings.txt");
        let mut lines = Vec::new();
        if let Ok(s) = std::fs::read_to_string(&p) {
            for l in s.lines() {
                let l = l.trim();
                if !l.starts_with("known:") {
                    continue;
                }
                let rest = l["known:".len()..].trim();
                // known: property=C01 sig="..." what...
                let Some(prop) = rest
                    .split_whitespace()
                    .find_map(|t| t.strip_prefix("property="))
                else {
                    continue;
                };
                let Some(i) = rest.find("sig=\"") else { continue };
                let after = &rest[i + 5..];
                let Some(j) = after.find('"') else { continue };
                let sig = &after[..j];
                let what = after[j + 1..].trim().trim_start_matches('—').trim().to_string();
                lines.push(KnownLine {
                    property: prop.to_string(),
                    sig: sig.to_string(),
                    what,
                });
            }
        }
        Known { lines }
    }

    pub fn find(&self, property: &str, sig: &str) -> Option<&KnownLine> {
        self.lines.iter().find(|l| {
            l.property == property
                && (l.sig == sig
                    || (l.sig.ends_with('*') && sig.starts_with(&l.sig[..l.sig.len() - 1])))
        })
    }
}

/// Signature to look for when the process re-runs an enumeration as a replay (`VX_REPLAY_SIG`).
pub fn replay_target() -> Option<String> {
    std::env::var("VX_REPLAY_SIG").ok().filter(|s| !s.is_empty())
}

pub struct Tier {
    pub thorough: bool,
    pub seed: u64,
}

impl Tier {
    pub fn name(&self) -> &'static str {
        if self.thorough {
            "thorough"
        } else {
            "quick"
        }
    }
}

/// Accumulates what one check run covered and found.
pub struct Report {
    pub property: String,
    pub level: &'static str,
    pub tier: String,
    pub seed: u64,
    pub t0: std::time::Instant,
    pub evaluations: u64,
    pub nontrivial: u64,
    pub states: u64,
    pub transitions: u64,
    pub exhaustive: bool,
    pub rule: String,
    pub bounds: Vec<Value>,
    pub caps: Vec<String>,
    pub outcomes: BTreeMap<String, u64>,
    pub samples: Vec<Value>,
    pub assumptions: Vec<String>,
    pub extra: BTreeMap<String, Value>,
    pub known_matched: BTreeSet<String>,
    pub unknown: Vec<(String, PathBuf, String)>,
    pub known: Known,
    pub violation_counts: BTreeMap<String, u64>,
}

impl Report {
    pub fn new(property: &str, level: &'static str, tier: &Tier) -> Self {
        Self {
            property: property.to_string(),
            level,
            tier: tier.name().to_string(),
            seed: tier.seed,
            t0: std::time::Instant::now(),
            evaluations: 0,
            nontrivial: 0,
            states: 0,
            transitions: 0,
            exhaustive: true,
            rule: String::new(),
            bounds: Vec::new(),
            caps: Vec::new(),
            outcomes: BTreeMap::new(),
            samples: Vec::new(),
            assumptions: Vec::new(),
            extra: BTreeMap::new(),
            known_matched: BTreeSet::new(),
            unknown: Vec::new(),
            known: Known::load(),
            violation_counts: BTreeMap::new(),
        }
    }

    pub fn is_known(&self, sig: &str) -> bool {
        self.known.find(&self.property, sig).is_some()
    }

    /// Record a violation found outside the explorer (E2/E4 style checks). `replay` is any JSON
    /// that lets `vx replay` reproduce it.
    pub fn violation(&mut self, sig: &str, message: &str, replay: Value) {
        *self.violation_counts.entry(sig.to_string()).or_insert(0) += 1;
        // `vx replay <file>` of an enumeration engine: the case is identified by its signature and
        // re-found by re-running the (deterministic) enumeration; nothing is written.
        if let Some(want) = replay_target() {
            if sig == want && !self.unknown.iter().any(|u| u.0 == sig) {
                println!("REPRODUCED {}", sig);
                println!("  {}", message);
                self.unknown.push((sig.to_string(), PathBuf::from("/dev/null"), message.to_string()));
            }
            return;
        }
        if let Some(k) = self.known.find(&self.property, sig) {
            if self.known_matched.insert(sig.to_string()) {
                println!(
                    "KNOWN-FINDING: property={} {} [sig=\"{}\"] e.g. {}",
                    self.property, k.what, sig, message
                );
                let _ = self.write_replay(sig, message, replay, true);
            }
            return;
        }
        if self.unknown.iter().any(|u| u.0 == sig) {
            return;
        }
        let path = self
            .write_replay(sig, message, replay, false)
            .unwrap_or_else(|_| PathBuf::from("/dev/null"));
        println!("VIOLATION property={} replay={}", self.property, path.display());
        println!("  signature: {}", sig);
        println!("  {}", message);
        self.unknown.push((sig.to_string(), path, message.to_string()));
    }

    fn write_replay(
        &self,
        sig: &str,
        message: &str,
        mut replay: Value,
        known: bool,
    ) -> std::io::Result<PathBuf> {
        let dir = verif_root().join("replays").join(&self.property);
        std::fs::create_dir_all(&dir)?;
        let h = crate::core::fnv(sig.as_bytes());
        let name = format!("{}{:016x}.json", if known { "known-" } else { "" }, h);
        let path = dir.join(name);
        if let Value::Object(m) = &mut replay {
            m.insert("property".into(), json!(self.property));
            m.insert("tier".into(), json!(self.tier));
            m.insert("signature".into(), json!(sig));
            m.insert("message".into(), json!(message));
        }
        std::fs::write(&path, serde_json::to_string_pretty(&replay).unwrap())?;
        Ok(path)
    }

    /// Merge the statistics of one explored harness; classify its violations.
    pub fn absorb(&mut self, h: &dyn Harness, st: &ExploreStats) -> Result<(), String> {
        self.evaluations += st.executions;
        self.nontrivial += st.nontrivial;
        self.states += st.states;
        self.transitions += st.transitions;
        if !st.complete {
            self.exhaustive = false;
        }
        if let Some(c) = &st.cap_hit {
            self.caps.push(format!("{}: {}", h.name(), c));
        }
        self.bounds.push(json!({
            "harness": h.name(),
            "bound_completed": st.bound_completed.map(|b| json!({"preemptions": b.preempt, "env_deviations": b.env, "total_deviations": b.total})),
            "executions": st.executions,
            "states": st.states,
            "transitions": st.transitions,
            "choice_points_max": st.choice_points_max,
            "distinct_outcomes": st.outcomes.len(),
            "wall_s": (st.wall_s * 100.0).round() / 100.0,
        }));
        for (k, v) in &st.outcomes {
            *self.outcomes.entry(k.clone()).or_insert(0) += v;
        }
        for (k, v) in &st.violation_counts {
            *self.violation_counts.entry(k.clone()).or_insert(0) += v;
        }
        for v in &st.violations {
            self.classify(h, v)?;
        }
        Ok(())
    }

    fn classify(&mut self, h: &dyn Harness, v: &FoundViolation) -> Result<(), String> {
        let known = self.known.find(&self.property, &v.signature).cloned();
        let first_time = if known.is_some() {
            self.known_matched.insert(v.signature.clone())
        } else {
            !self.unknown.iter().any(|u| u.0 == v.signature)
        };
        if !first_time {
            return Ok(());
        }
        // replay twice before believing anything
        let (res, trace) = crate::core::replay_twice(h, &v.choices)?;
        if !res.violations.iter().any(|x| x.signature == v.signature) {
            return Err(format!(
                "violation {:?} of harness {} did not reproduce on replay",
                v.signature,
                h.name()
            ));
        }
        let replay = json!({
            "engine": "explorer",
            "harness": v.harness,
            "params": v.params,
            "choices": v.choices,
            "bound": {"preemptions": v.bound.preempt, "env_deviations": v.bound.env, "total_deviations": v.bound.total},
            "trace": trace,
        });
        if let Some(k) = known {
            println!(
                "KNOWN-FINDING: property={} {} [sig=\"{}\" harness={} choices={:?}]",
                self.property, k.what, v.signature, v.harness, v.choices
            );
            let _ = self.write_replay(&v.signature, &v.message, replay, true);
            if self.samples.len() < 6 {
                self.samples.push(json!({
                    "kind": "known-finding witness",
                    "harness": v.harness,
                    "signature": v.signature,
                    "choices": v.choices,
                    "trace_tail": trace.iter().rev().take(25).rev().collect::<Vec<_>>(),
                }));
            }
        } else {
            let path = self
                .write_replay(&v.signature, &v.message, replay, false)
                .map_err(|e| e.to_string())?;
            println!("VIOLATION property={} replay={}", self.property, path.display());
            println!("  signature: {}", v.signature);
            println!("  harness:   {}  choices {:?}", v.harness, v.choices);
            println!("  {}", v.message);
            for l in trace.iter().rev().take(40).rev() {
                println!("    | {}", l);
            }
            self.unknown.push((v.signature.clone(), path, v.message.clone()));
        }
        Ok(())
    }

    pub fn sample_default_run(&mut self, h: &dyn Harness) {
        if let Ok((res, trace, choices)) = crate::core::replay(h, &[]) {
            self.samples.push(json!({
                "kind": "default schedule",
                "harness": h.name(),
                "choices": choices,
                "outcome": res.outcome,
                "trace_head": trace.iter().take(30).collect::<Vec<_>>(),
                "trace_len": trace.len(),
            }));
        }
    }

    /// Write the evidence file and return the process exit code.
    pub fn finish(mut self) -> i32 {
        if let Some(want) = replay_target() {
            return if self.unknown.iter().any(|u| u.0 == want) {
                1
            } else {
                println!("not reproduced: no case of this run has signature {:?}", want);
                0
            };
        }
        let wall = self.t0.elapsed().as_secs_f64();
        let mut coverage = serde_json::Map::new();
        coverage.insert("evaluations".into(), json!(self.evaluations));
        coverage.insert("distinct_nontrivial".into(), json!(self.nontrivial));
        coverage.insert("rule".into(), json!(self.rule));
        coverage.insert("states".into(), json!(self.states.max(1)));
        coverage.insert("transitions".into(), json!(self.transitions.max(1)));
        coverage.insert(
            "traces_validated_against_impl".into(),
            json!(self.evaluations),
        );
        coverage.insert("exhaustive".into(), json!(self.exhaustive && self.caps.is_empty()));
        coverage.insert("bounds".into(), json!(self.bounds));
        coverage.insert("caps_hit".into(), json!(self.caps));
        coverage.insert("distinct_outcomes".into(), json!(self.outcomes.len()));
        let mut top: Vec<(&String, &u64)> = self.outcomes.iter().collect();
        top.sort_by(|a, b| b.1.cmp(a.1));
        coverage.insert(
            "outcome_histogram_top".into(),
            json!(top
                .iter()
                .take(12)
                .map(|(k, v)| json!({"outcome": k, "executions": v}))
                .collect::<Vec<_>>()),
        );
        if self.samples.is_empty() {
            self.samples.push(json!("no sample recorded"));
        }
        coverage.insert("samples".into(), json!(self.samples));
        coverage.insert(
            "known_findings_matched".into(),
            json!(self.known_matched.iter().collect::<Vec<_>>()),
        );
        coverage.insert("violating_cases_by_signature".into(), json!(self.violation_counts));
        for (k, v) in std::mem::take(&mut self.extra) {
            coverage.insert(k, v);
        }
        let ev = json!({
            "property_id": self.property,
            "tier": self.tier,
            "seed": self.seed,
            "level": self.level,
            "coverage": Value::Object(coverage),
            "assumptions": self.assumptions,
            "wall_s": (wall * 100.0).round() / 100.0,
            "violations": self.unknown.len(),
        });
        let dir = verif_root().join("evidence");
        let _ = std::fs::create_dir_all(&dir);
        let path = dir.join(format!("{}.json", self.property));
        if let Err(e) = std::fs::write(&path, serde_json::to_string_pretty(&ev).unwrap()) {
            eprintln!("cannot write evidence {}: {}", path.display(), e);
            return 2;
        }
        println!(
            "{} {}: {} cases, {} states, {} transitions, {} distinct outcomes, {} known finding(s), {} violation(s), {:.1}s{}",
            self.property,
            self.tier,
            self.evaluations,
            self.states,
            self.transitions,
            self.outcomes.len(),
            self.known_matched.len(),
            self.unknown.len(),
            wall,
            if self.caps.is_empty() { "" } else { " (cap hit)" }
        );
        if self.unknown.is_empty() {
            0
        } else {
            1
        }
    }
}

pub fn read_json(path: &Path) -> Result<Value, String> {
    let s = std::fs::read_to_string(path).map_err(|e| format!("{}: {}", path.display(), e))?;
    serde_json::from_str(&s).map_err(|e| format!("{}: {}", path.display(), e))
}
