//! E1 `sched`: controlled scheduler over the real PDU loop.
//!
//! Tasks are stackful coroutines running on one OS thread. The `verif` hook in ethercrab calls
//! [`hook`] immediately before every shared-state access; the hook yields to the scheduler, which
//! asks the explorer who runs next. One step of a task = the access it announced plus everything
//! up to (not including) its next announced access.

use crate::clock;
use crate::core::{fnv, fnv_mix, Ctx, Kind, RunResult, Violation};
use ethercrab::error::{Error, PduError};
use ethercrab::verif::{self as vf, Buf, Event};
use ethercrab::{
    Command, MainDevice, MainDeviceConfig, PduLoop, PduRx, PduStorage, PduTx, RetryBehaviour,
    Timeouts,
};
use generator::{Generator, Gn};
use std::cell::{Cell, RefCell};
use std::collections::{BTreeMap, BTreeSet};
use std::future::Future;
use std::panic::{catch_unwind, AssertUnwindSafe};
use std::pin::pin;
use std::sync::atomic::{AtomicBool, Ordering};
use std::sync::Arc;
use std::task::{Context, Poll, Wake, Waker};
use std::time::Duration;

pub const DATA: usize = 64;
const STACK_WORDS: usize = 0x6000; // 192 KiB per coroutine

// ---------------------------------------------------------------------------------------------
// Configuration
// ---------------------------------------------------------------------------------------------

#[derive(Clone, Debug, PartialEq, Eq)]
pub enum Req {
    /// `Command::fprd(..).receive_slice(len)` through `MainDevice::single_pdu`.
    Read { len: u16 },
    /// As `Read`, then the view is shortened from the front by `ct` bytes before it is read.
    ReadTrim { len: u16, ct: usize },
    /// `Command::fpwr(..).send_receive_slice(data)`.
    Write { len: u16 },
    /// One frame with `pdus` read datagrams built through the hook re-exports and read back with
    /// `into_pdu_iter`.
    Multi { pdus: u8, len: u16 },
}

#[derive(Clone, Copy, Debug, PartialEq, Eq)]
pub enum Retry {
    None,
    Count(usize),
    Forever,
}

#[derive(Clone, Copy, Debug, PartialEq, Eq)]
pub enum Prop {
    C01,
    C02,
    C06,
}

#[derive(Clone, Debug)]
pub struct E1Cfg {
    pub prop: Prop,
    pub label: String,
    pub slots: usize,
    pub apps: Vec<Vec<Req>>,
    /// Env choice at every send: ok / partial / error.
    pub send_faults: bool,
    /// Env choice of which in-flight response is delivered next.
    pub reorder: bool,
    /// Env choice: deliver a second copy of a response later.
    pub duplicates: bool,
    /// Env choice: lose a response.
    pub loss: bool,
    /// Every response to the first `lose_first` transmissions of each request is lost
    /// (deterministically, not a choice).
    pub lose_first: usize,
    /// Every response to a request with one of these tags is lost (deterministically).
    pub lose_tags: Vec<u16>,
    /// The `Clock` pseudo task exists (virtual time may advance to the next deadline).
    pub clock: bool,
    /// Env choice at every pending poll: abandon (drop) the request future.
    pub abandon: bool,
    pub retry: Retry,
    /// Tx copies the frame in two halves with a scheduling point in between.
    pub split_tx: bool,
    pub horizon: usize,
    /// The Clock fires at most this many deadlines per execution (bounded observation of
    /// `RetryBehaviour::Forever`; finite policies never need more than retries + 1 per request).
    pub max_clock_firings: usize,
    /// The Clock may only fire once every request has been transmitted at least as often as
    /// deadlines fired (the "transmit task services every sendable frame before the next
    /// deadline" assumption turned into a scheduling constraint; used to observe `Forever`).
    pub clock_waits_for_tx: bool,
    /// The transmit task does not run at all while requests are outstanding (a stalled TX task):
    /// nothing is ever sent; only the "resolves, never hangs, slot not lost" clauses apply.
    pub tx_dead: bool,
    /// Env choice at delivery: the response arrives with more EtherCAT payload than a slot can
    /// hold (index and header intact), so the receive side rejects it after it claimed the slot.
    pub oversize: bool,
}

impl E1Cfg {
    pub fn base(prop: Prop, label: &str, slots: usize, apps: Vec<Vec<Req>>) -> Self {
        Self {
            prop,
            label: label.to_string(),
            slots,
            apps,
            send_faults: false,
            reorder: false,
            duplicates: false,
            loss: false,
            lose_first: 0,
            lose_tags: Vec::new(),
            clock: false,
            abandon: false,
            retry: Retry::None,
            split_tx: true,
            horizon: 4000,
            max_clock_firings: 10,
            clock_waits_for_tx: false,
            tx_dead: false,
            oversize: false,
        }
    }
}

// ---------------------------------------------------------------------------------------------
// Identity of requests and the wire model's answers (independent of ethercrab's encoders)
// ---------------------------------------------------------------------------------------------

pub fn tag_of(task: usize, r: usize) -> u16 {
    (task * 4 + r + 1) as u16
}

fn adp_of(tag: u16) -> u16 {
    0x1000 + tag
}

fn ado_of(tag: u16, j: usize) -> u16 {
    0x0100 * tag + j as u16
}

fn resp_byte(tag: u16, j: usize, i: usize) -> u8 {
    ((tag as usize) * 37 + j * 53 + i * 11 + 5) as u8
}

fn write_byte(tag: u16, i: usize) -> u8 {
    (0xa5usize ^ ((tag as usize) * 29 + i * 3)) as u8
}

fn resp_wkc(tag: u16, j: usize) -> u16 {
    tag * 3 + j as u16
}

/// One expected datagram of a request: (command code, adp, ado, request data, response data, wkc)
#[derive(Clone, Debug)]
pub struct ExpPdu {
    pub cmd: u8,
    pub adp: u16,
    pub ado: u16,
    pub req_data: Vec<u8>,
    pub resp_data: Vec<u8>,
    pub wkc: u16,
}

pub fn expected_pdus(tag: u16, req: &Req) -> Vec<ExpPdu> {
    match req {
        Req::Read { len } | Req::ReadTrim { len, .. } => vec![ExpPdu {
            cmd: 0x04,
            adp: adp_of(tag),
            ado: ado_of(tag, 0),
            req_data: vec![0; *len as usize],
            resp_data: (0..*len as usize).map(|i| resp_byte(tag, 0, i)).collect(),
            wkc: resp_wkc(tag, 0),
        }],
        Req::Write { len } => {
            let d: Vec<u8> = (0..*len as usize).map(|i| write_byte(tag, i)).collect();
            vec![ExpPdu {
                cmd: 0x05,
                adp: adp_of(tag),
                ado: ado_of(tag, 0),
                req_data: d.clone(),
                resp_data: d,
                wkc: resp_wkc(tag, 0),
            }]
        }
        Req::Multi { pdus, len } => (0..*pdus as usize)
            .map(|j| ExpPdu {
                cmd: 0x04,
                adp: adp_of(tag),
                ado: ado_of(tag, j),
                req_data: vec![0; *len as usize],
                resp_data: (0..*len as usize).map(|i| resp_byte(tag, j, i)).collect(),
                wkc: resp_wkc(tag, j),
            })
            .collect(),
    }
}

/// Independent encoder of the Ethernet frame a request must produce, given the wire indices seen.
pub fn encode_request(exp: &[ExpPdu], idxs: &[u8]) -> Vec<u8> {
    let mut pdus = Vec::new();
    for (k, p) in exp.iter().enumerate() {
        pdus.push(p.cmd);
        pdus.push(idxs[k]);
        pdus.extend_from_slice(&p.adp.to_le_bytes());
        pdus.extend_from_slice(&p.ado.to_le_bytes());
        let more = if k + 1 < exp.len() { 0x8000u16 } else { 0 };
        pdus.extend_from_slice(&((p.req_data.len() as u16) | more).to_le_bytes());
        pdus.extend_from_slice(&[0, 0]);
        pdus.extend_from_slice(&p.req_data);
        pdus.extend_from_slice(&[0, 0]);
    }
    let mut f = vec![0xff; 6];
    f.extend_from_slice(&[0x10; 6]);
    f.extend_from_slice(&[0x88, 0xa4]);
    f.extend_from_slice(&((pdus.len() as u16) | 0x1000).to_le_bytes());
    f.extend_from_slice(&pdus);
    f
}

/// Walk the datagrams of a frame: (offset of datagram header, cmd, idx, adp, ado, len, more).
pub fn walk_pdus(frame: &[u8]) -> Option<Vec<(usize, u8, u8, u16, u16, usize, bool)>> {
    if frame.len() < 16 {
        return None;
    }
    let total = (u16::from_le_bytes([frame[14], frame[15]]) & 0x07ff) as usize;
    let mut out = Vec::new();
    let mut off = 16;
    let end = 16 + total;
    if end > frame.len() {
        return None;
    }
    while off < end {
        if off + 10 > end {
            return None;
        }
        let cmd = frame[off];
        let idx = frame[off + 1];
        let adp = u16::from_le_bytes([frame[off + 2], frame[off + 3]]);
        let ado = u16::from_le_bytes([frame[off + 4], frame[off + 5]]);
        let lf = u16::from_le_bytes([frame[off + 6], frame[off + 7]]);
        let len = (lf & 0x07ff) as usize;
        let more = lf & 0x8000 != 0;
        if off + 10 + len + 2 > end {
            return None;
        }
        out.push((off, cmd, idx, adp, ado, len, more));
        off += 10 + len + 2;
        if !more {
            break;
        }
    }
    Some(out)
}

/// The segment's answer to a transmitted frame, computed from the frame's own address fields.
pub fn make_response(tx: &[u8]) -> Option<Vec<u8>> {
    let pdus = walk_pdus(tx)?;
    let mut r = tx.to_vec();
    r[6] = 0x12; // first SubDevice sets the U/L bit of the source MAC
    for (off, cmd, _idx, adp, ado, len, _more) in pdus {
        let tag = adp.wrapping_sub(0x1000);
        let j = (ado.wrapping_sub(0x0100u16.wrapping_mul(tag))) as usize;
        if cmd == 0x04 {
            for i in 0..len {
                r[off + 10 + i] = resp_byte(tag, j, i);
            }
        }
        let w = resp_wkc(tag, j).to_le_bytes();
        r[off + 10 + len] = w[0];
        r[off + 10 + len + 1] = w[1];
    }
    Some(r)
}

// ---------------------------------------------------------------------------------------------
// Coroutine plumbing
// ---------------------------------------------------------------------------------------------

#[derive(Clone, Copy, Debug, PartialEq)]
pub enum Cond {
    /// Wake flag of this task.
    Waker,
    /// Something is in flight on the wire (or shutdown).
    Wire,
    /// Another task made a step since (global step counter at block time).
    Progress(u64),
}

#[derive(Clone, Copy, Debug)]
pub enum Y {
    Point(Event),
    /// Harness-level scheduling point (no crate access).
    Soft(&'static str),
    Blocked(Cond),
    Done,
}

struct SendShim<F>(F);
unsafe impl<F> Send for SendShim<F> {}

thread_local! {
    static TEARDOWN: Cell<bool> = const { Cell::new(false) };
    static CTX: Cell<*mut Ctx> = const { Cell::new(std::ptr::null_mut()) };
    static WORLD: RefCell<Option<World>> = const { RefCell::new(None) };
    static HOOK_INSTALLED: Cell<bool> = const { Cell::new(false) };
    /// Finished coroutines are re-initialised instead of re-allocated (stack mmap/munmap under a
    /// process-wide lock would serialise the worker threads).
    static POOL: RefCell<Vec<Generator<'static, (), Y>>> = const { RefCell::new(Vec::new()) };
}

fn spawn_co(f: impl FnOnce() -> Y + 'static) -> Generator<'static, (), Y> {
    let shim = SendShim(f);
    let body = move || {
        let s = shim;
        (s.0)()
    };
    match POOL.with(|p| p.borrow_mut().pop()) {
        Some(mut g) => {
            g.init_code(body);
            g
        }
        None => Gn::<()>::new_opt(STACK_WORDS, body),
    }
}

fn hook(e: &Event) {
    if TEARDOWN.with(|t| t.get()) || !generator::is_generator() {
        return;
    }
    #[allow(deprecated)]
    generator::yield_with(Y::Point(*e));
}

fn co_yield(y: Y) {
    if TEARDOWN.with(|t| t.get()) || !generator::is_generator() {
        return;
    }
    #[allow(deprecated)]
    generator::yield_with(y);
}

fn tearing_down() -> bool {
    TEARDOWN.with(|t| t.get())
}

fn with_ctx<R>(f: impl FnOnce(&mut Ctx) -> R) -> R {
    let p = CTX.with(|c| c.get());
    assert!(!p.is_null(), "no explorer context installed");
    f(unsafe { &mut *p })
}

fn w<R>(f: impl FnOnce(&mut World) -> R) -> R {
    WORLD.with(|w| f(w.borrow_mut().as_mut().expect("world")))
}

pub struct WakeFlag(pub AtomicBool);

impl Wake for WakeFlag {
    fn wake(self: Arc<Self>) {
        self.0.store(true, Ordering::SeqCst);
    }
    fn wake_by_ref(self: &Arc<Self>) {
        self.0.store(true, Ordering::SeqCst);
    }
}

enum Polled<T> {
    Ready(T),
    Abandoned,
    Teardown,
}

/// Minimal `block_on`: a task whose wake flag is clear is *disabled* for the scheduler, so a lost
/// wake-up shows up as a deadlock, not as a spin.
fn block_on<F: Future>(fut: F, flag: &Arc<WakeFlag>, may_abandon: bool) -> Polled<F::Output> {
    let waker = Waker::from(flag.clone());
    let mut cx = Context::from_waker(&waker);
    let mut fut = pin!(fut);
    loop {
        if tearing_down() {
            return Polled::Teardown;
        }
        if let Poll::Ready(v) = fut.as_mut().poll(&mut cx) {
            return Polled::Ready(v);
        }
        if tearing_down() {
            return Polled::Teardown;
        }
        if may_abandon && with_ctx(|c| c.choose(Kind::Env, 2)) == 1 {
            with_ctx(|c| c.log(|| "    env: abandon request future".into()));
            return Polled::Abandoned;
        }
        while !flag.0.swap(false, Ordering::SeqCst) {
            if tearing_down() {
                return Polled::Teardown;
            }
            co_yield(Y::Blocked(Cond::Waker));
        }
    }
}

// ---------------------------------------------------------------------------------------------
// World: state shared between tasks, wire model and monitors
// ---------------------------------------------------------------------------------------------

#[derive(Clone, Debug, PartialEq)]
pub enum Outcome {
    Ok(Vec<(Vec<u8>, bool)>), // per datagram: data bytes, working counter matched
    /// Completed, but the bytes were read through a view whose slot had already been re-allocated
    /// (the view monitor reports that on its own).
    OkStaleView(Vec<(Vec<u8>, bool)>),
    Err(String),
    Abandoned,
    AllocStarved,
}

struct ReqState {
    tag: u16,
    task: usize,
    req: Req,
    exp: Vec<ExpPdu>,
    outcome: Option<Outcome>,
    transmissions: Vec<Vec<u8>>,
    /// responses generated / delivered for this request
    responses_delivered: usize,
    deadline_fired_unserviced: bool,
    deadline_firings: usize,
}

struct HeldView {
    task: usize,
    tag: u16,
    pdu_no: usize,
    view: vf::ReceivedPdu<'static>,
    expected: Vec<u8>,
    slot: Option<usize>,
    generation: u64,
    reported: bool,
}

struct WireFrame {
    bytes: Vec<u8>,
    tag: u16,
    dup: bool,
}

#[derive(Clone, Copy, Debug, PartialEq, Eq, PartialOrd, Ord)]
enum Role {
    Builder,
    Tx,
    Rx,
    Reader,
}

#[derive(Clone, Debug, PartialEq, Eq, Hash)]
struct SlotSnap {
    status: u8,
    first_pdu: u16,
    len: usize,
    buf: u64,
}

pub struct World {
    cfg: E1Cfg,
    reqs: Vec<ReqState>,
    views: Vec<HeldView>,
    in_flight: Vec<WireFrame>,
    apps_left: usize,
    shutdown: bool,
    violations: Vec<Violation>,
    flags: BTreeSet<String>,
    // monitors
    base: usize,
    stride: usize,
    tokens: Vec<Vec<(usize, Role)>>,
    generation: Vec<u64>,
    /// task that currently "owns" the request living in the slot (did None->Created)
    owner: Vec<Option<usize>>,
    owner_tag: Vec<Option<u16>>,
    /// per-slot cause flags of the current generation
    slot_flags: Vec<BTreeSet<String>>,
    cur_task: usize,
    cur_tag: Vec<Option<u16>>,
    global_steps: u64,
    rx_errors: Vec<(u16, String)>,
    /// (slot, generation) of the response frame each task parsed last: a view handed out by that
    /// parse belongs to this generation of the slot.
    last_parse: Vec<Option<(usize, u64)>>,
    /// generation of each slot when the receive side last looked at its first_pdu
    lookup_gen: Vec<u64>,
    task_names: Vec<String>,
    tx_panics: usize,
}

pub fn st_name(s: u8) -> &'static str {
    match s {
        0 => "None",
        1 => "Created",
        2 => "Sendable",
        3 => "Sending",
        4 => "Sent",
        5 => "RxBusy",
        6 => "RxDone",
        7 => "RxProcessing",
        _ => "?",
    }
}

impl World {
    fn slot_of_addr(&self, addr: usize) -> Option<usize> {
        if addr < self.base {
            return None;
        }
        let i = (addr - self.base) / self.stride;
        if i < self.cfg.slots {
            Some(i)
        } else {
            None
        }
    }

    fn violate(&mut self, sig: String, msg: String) {
        if !self.violations.iter().any(|v| v.signature == sig) {
            self.violations.push(Violation {
                signature: sig,
                message: msg,
            });
        }
    }

    fn req_mut(&mut self, tag: u16) -> Option<&mut ReqState> {
        self.reqs.iter_mut().find(|r| r.tag == tag)
    }
}

// ---------------------------------------------------------------------------------------------
// Storage dispatch (const generics)
// ---------------------------------------------------------------------------------------------

pub enum Sto {
    N1(*mut PduStorage<1, DATA>),
    N2(*mut PduStorage<2, DATA>),
    N4(*mut PduStorage<4, DATA>),
}

impl Sto {
    pub fn new(n: usize) -> Self {
        match n {
            1 => Sto::N1(Box::into_raw(Box::new(PduStorage::new()))),
            2 => Sto::N2(Box::into_raw(Box::new(PduStorage::new()))),
            4 => Sto::N4(Box::into_raw(Box::new(PduStorage::new()))),
            _ => panic!("unsupported slot count {}", n),
        }
    }

    pub fn split(&self) -> (PduTx<'static>, PduRx<'static>, PduLoop<'static>) {
        unsafe {
            match self {
                Sto::N1(p) => (&**p).try_split().unwrap(),
                Sto::N2(p) => (&**p).try_split().unwrap(),
                Sto::N4(p) => (&**p).try_split().unwrap(),
            }
        }
    }

    pub unsafe fn free(self) {
        unsafe {
            match self {
                Sto::N1(p) => drop(Box::from_raw(p)),
                Sto::N2(p) => drop(Box::from_raw(p)),
                Sto::N4(p) => drop(Box::from_raw(p)),
            }
        }
    }
}

// ---------------------------------------------------------------------------------------------
// Tasks
// ---------------------------------------------------------------------------------------------

struct Task {
    name: String,
    is_app: bool,
    gen: Option<Generator<'static, (), Y>>,
    pending: Option<Event>,
    blocked: Option<Cond>,
    done: bool,
    flag: Arc<WakeFlag>,
    steps: u64,
}

fn app_body(
    task: usize,
    script: Vec<Req>,
    md: &'static MainDevice<'static>,
    flag: Arc<WakeFlag>,
    cfg: E1Cfg,
) -> Y {
    let timeout = Duration::from_micros(100);
    let retries = match cfg.retry {
        Retry::None => 0,
        Retry::Count(n) => n,
        Retry::Forever => usize::MAX,
    };
    for (r, req) in script.iter().enumerate() {
        let tag = tag_of(task, r);
        let exp = expected_pdus(tag, req);
        let mut attempts = 0;
        let outcome = loop {
            if tearing_down() {
                return Y::Done;
            }
            w(|w| w.cur_tag[task] = Some(tag));
            let res: Polled<Result<Outcome, Error>> = match req {
                Req::Read { len } | Req::ReadTrim { len, .. } => {
                    let fut = Command::fprd(exp[0].adp, exp[0].ado)
                        .with_wkc(exp[0].wkc)
                        .receive_slice(md, *len);
                    match block_on(fut, &flag, cfg.abandon) {
                        Polled::Ready(Ok(mut pdu)) => {
                            let mut want = exp[0].resp_data.clone();
                            if let Req::ReadTrim { ct, .. } = req {
                                pdu.trim_front(*ct);
                                want = want[(*ct).min(want.len())..].to_vec();
                                if pdu.len() != want.len() {
                                    w(|w| {
                                        w.violate(
                                            "trim-front-length".into(),
                                            format!(
                                                "view of {} bytes shortened by {} reports len {} (expected {})",
                                                len, ct, pdu.len(), want.len()
                                            ),
                                        )
                                    });
                                }
                            }
                            let bytes = pdu.to_vec();
                            if let Req::ReadTrim { ct, .. } = req {
                                if bytes != want {
                                    w(|w| {
                                        w.violate(
                                            "trim-front-exposes-bytes-outside-datagram".into(),
                                            format!(
                                                "view of {} bytes shortened by {} shows {:02x?}, the datagram's remaining data is {:02x?}",
                                                len, ct, bytes, want
                                            ),
                                        )
                                    });
                                }
                                // report the untrimmed equivalent so the completion oracle stays simple
                                let _ = &bytes;
                            }
                            let bytes = if matches!(req, Req::ReadTrim { .. }) {
                                exp[0].resp_data.clone()
                            } else {
                                bytes
                            };
                            let stale = hold_view(task, tag, 0, pdu, want);
                            Polled::Ready(Ok(if stale {
                                Outcome::OkStaleView(vec![(bytes, true)])
                            } else {
                                Outcome::Ok(vec![(bytes, true)])
                            }))
                        }
                        Polled::Ready(Err(e)) => Polled::Ready(Err(e)),
                        Polled::Abandoned => Polled::Abandoned,
                        Polled::Teardown => Polled::Teardown,
                    }
                }
                Req::Write { .. } => {
                    let fut = Command::fpwr(exp[0].adp, exp[0].ado)
                        .with_wkc(exp[0].wkc)
                        .send_receive_slice(md, exp[0].req_data.as_slice());
                    match block_on(fut, &flag, cfg.abandon) {
                        Polled::Ready(Ok(pdu)) => {
                            let bytes = pdu.to_vec();
                            let stale = hold_view(task, tag, 0, pdu, exp[0].resp_data.clone());
                            Polled::Ready(Ok(if stale {
                                Outcome::OkStaleView(vec![(bytes, true)])
                            } else {
                                Outcome::Ok(vec![(bytes, true)])
                            }))
                        }
                        Polled::Ready(Err(e)) => Polled::Ready(Err(e)),
                        Polled::Abandoned => Polled::Abandoned,
                        Polled::Teardown => Polled::Teardown,
                    }
                }
                Req::Multi { len, .. } => {
                    let pl = md.verif_pdu_loop();
                    // SAFETY of lifetimes: `md` is 'static for the duration of the execution.
                    let pl: &'static PduLoop<'static> = unsafe { std::mem::transmute(pl) };
                    match vf::alloc_frame(pl) {
                        Err(e) => Polled::Ready(Err(e)),
                        Ok(mut frame) => {
                            let mut handles = Vec::new();
                            let mut perr = None;
                            for p in &exp {
                                match vf::push_pdu(
                                    &mut frame,
                                    Command::fprd(p.adp, p.ado).into(),
                                    (),
                                    Some(*len),
                                ) {
                                    Ok(h) => handles.push(h),
                                    Err(e) => {
                                        perr = Some(e);
                                        break;
                                    }
                                }
                            }
                            if let Some(e) = perr {
                                drop(frame);
                                Polled::Ready(Err(Error::Pdu(e)))
                            } else {
                                let fut = vf::mark_sendable(frame, pl, timeout, retries);
                                vf::wake_sender(pl);
                                match block_on(fut, &flag, cfg.abandon) {
                                    Polled::Ready(Ok(rf)) => {
                                        let mut out = Vec::new();
                                        let mut err = None;
                                        let mut any_stale = false;
                                        for (k, item) in rf.into_pdu_iter().enumerate() {
                                            match item {
                                                Ok(pdu) => {
                                                    let bytes = pdu.to_vec();
                                                    let want = exp.get(k).map(|p| p.wkc).unwrap_or(0xffff);
                                                    match pdu.wkc(want) {
                                                        Ok(pdu) => {
                                                            out.push((bytes, true));
                                                            let e = exp
                                                                .get(k)
                                                                .map(|p| p.resp_data.clone())
                                                                .unwrap_or_default();
                                                            any_stale |= hold_view(task, tag, k, pdu, e);
                                                        }
                                                        Err(_) => out.push((bytes, false)),
                                                    }
                                                }
                                                Err(e) => {
                                                    err = Some(e);
                                                    break;
                                                }
                                            }
                                        }
                                        match err {
                                            Some(e) => Polled::Ready(Err(e)),
                                            None if any_stale => {
                                                Polled::Ready(Ok(Outcome::OkStaleView(out)))
                                            }
                                            None => Polled::Ready(Ok(Outcome::Ok(out))),
                                        }
                                    }
                                    Polled::Ready(Err(e)) => Polled::Ready(Err(e)),
                                    Polled::Abandoned => Polled::Abandoned,
                                    Polled::Teardown => Polled::Teardown,
                                }
                            }
                        }
                    }
                }
            };
            match res {
                Polled::Teardown => return Y::Done,
                Polled::Abandoned => break Outcome::Abandoned,
                Polled::Ready(Ok(o)) => break o,
                Polled::Ready(Err(Error::Pdu(PduError::SwapState))) => {
                    // No free slot. Park until some other task made progress, then try again.
                    attempts += 1;
                    if attempts > 12 {
                        break Outcome::AllocStarved;
                    }
                    let g = w(|w| w.global_steps);
                    co_yield(Y::Blocked(Cond::Progress(g)));
                }
                Polled::Ready(Err(e)) => break Outcome::Err(format!("{:?}", e)),
            }
        };
        with_ctx(|c| c.log(|| format!("    app{} request tag {} -> {:?}", task, tag, outcome)));
        w(|w| {
            if let Some(rs) = w.req_mut(tag) {
                rs.outcome = Some(outcome);
            }
            w.cur_tag[task] = None;
        });
    }
    w(|w| w.apps_left -= 1);
    Y::Done
}

/// Hand a view to the world (the caller "keeps holding it"). Returns true if the slot the view
/// points into has been re-allocated since the response was parsed.
fn hold_view(task: usize, tag: u16, pdu_no: usize, pdu: vf::ReceivedPdu<'_>, expected: Vec<u8>) -> bool {
    // SAFETY: the storage outlives the world (the world is dropped before the storage is freed).
    let view: vf::ReceivedPdu<'static> = unsafe { std::mem::transmute(pdu) };
    w(|w| {
        let addr = view_addr(&view);
        let slot = w.slot_of_addr(addr);
        if w.cfg.prop == Prop::C06 {
            // C06 does not judge held views (that is C01's clause); only note staleness.
            let generation = match (slot, w.last_parse[task]) {
                (Some(s), Some((ps, g))) if ps == s => g,
                (Some(s), _) => w.generation[s],
                _ => 0,
            };
            return slot.map(|s| w.generation[s] > generation).unwrap_or(false);
        }
        let generation = match (slot, w.last_parse[task]) {
            (Some(s), Some((ps, g))) if ps == s => g,
            (Some(s), _) => w.generation[s],
            _ => 0,
        };
        let stale = slot.map(|s| w.generation[s] > generation).unwrap_or(false);
        w.views.push(HeldView {
            task,
            tag,
            pdu_no,
            view,
            expected,
            slot,
            generation,
            reported: false,
        });
        stale
    })
}

fn view_addr(v: &vf::ReceivedPdu<'_>) -> usize {
    // Deref goes through the hook, which is a no-op outside a coroutine step boundary; inside a
    // coroutine we must not yield while the world is borrowed, so read the pointer with teardown
    // semantics.
    let prev = TEARDOWN.with(|t| t.replace(true));
    let p = v.as_ptr() as usize;
    TEARDOWN.with(|t| t.set(prev));
    p
}

fn read_view(v: &vf::ReceivedPdu<'_>) -> Vec<u8> {
    let prev = TEARDOWN.with(|t| t.replace(true));
    let b = v.to_vec();
    TEARDOWN.with(|t| t.set(prev));
    b
}

fn tx_body(mut tx: PduTx<'static>, flag: Arc<WakeFlag>, cfg: E1Cfg) -> Y {
    let waker = Waker::from(flag.clone());
    loop {
        if tearing_down() {
            return Y::Done;
        }
        tx.replace_waker(&waker);
        while let Some(frame) = tx.next_sendable_frame() {
            let mode = if cfg.send_faults {
                with_ctx(|c| c.choose(Kind::Env, 3))
            } else {
                0
            };
            let mut copy: Vec<u8> = Vec::new();
            let res = frame.send_blocking(|bytes| {
                let h = bytes.len() / 2;
                copy.extend_from_slice(&bytes[..h]);
                if cfg.split_tx {
                    co_yield(Y::Soft("tx-mid"));
                }
                copy.extend_from_slice(&bytes[h..]);
                match mode {
                    0 => Ok(bytes.len()),
                    1 => Ok(bytes.len() - 1),
                    _ => Err(Error::SendFrame),
                }
            });
            if tearing_down() {
                return Y::Done;
            }
            let ok = res.is_ok();
            with_ctx(|c| {
                c.log(|| {
                    format!(
                        "    tx: send {} bytes -> {}",
                        copy.len(),
                        match mode {
                            0 => "ok",
                            1 => "partial",
                            _ => "error",
                        }
                    )
                })
            });
            w(|w| w.on_transmit(copy, ok));
        }
        if w(|w| w.shutdown) {
            return Y::Done;
        }
        while !flag.0.swap(false, Ordering::SeqCst) {
            if tearing_down() || w(|w| w.shutdown) {
                return Y::Done;
            }
            co_yield(Y::Blocked(Cond::Waker));
        }
    }
}

fn rx_body(mut rx: PduRx<'static>, cfg: E1Cfg) -> Y {
    loop {
        if tearing_down() {
            return Y::Done;
        }
        let n = w(|w| w.in_flight.len());
        if n == 0 {
            if w(|w| w.shutdown) {
                return Y::Done;
            }
            co_yield(Y::Blocked(Cond::Wire));
            continue;
        }
        let pick = if cfg.reorder {
            with_ctx(|c| c.choose(Kind::Env, n))
        } else {
            0
        };
        let frame = w(|w| w.in_flight.remove(pick));
        // loss / duplication are decisions of the wire, taken when the frame would be delivered
        if cfg.loss && !frame.dup && with_ctx(|c| c.choose(Kind::Env, 2)) == 1 {
            with_ctx(|c| c.log(|| format!("    wire: response for tag {} lost", frame.tag)));
            continue;
        }
        if cfg.duplicates && !frame.dup && with_ctx(|c| c.choose(Kind::Env, 2)) == 1 {
            with_ctx(|c| c.log(|| format!("    wire: response for tag {} duplicated", frame.tag)));
            w(|w| {
                w.in_flight.push(WireFrame {
                    bytes: frame.bytes.clone(),
                    tag: frame.tag,
                    dup: true,
                })
            });
        }
        let mut frame = frame;
        if cfg.oversize && !frame.dup && with_ctx(|c| c.choose(Kind::Env, 2)) == 1 {
            // same frame, but the EtherCAT header announces (and the frame carries) 4 bytes more
            // than the PDU area of a slot
            let new_len = DATA - 16 + 4;
            frame.bytes.resize(14 + 2 + new_len, 0);
            let hdr = 0x1000u16 | (new_len as u16 & 0x07ff);
            frame.bytes[14..16].copy_from_slice(&hdr.to_le_bytes());
            with_ctx(|c| c.log(|| format!("    wire: response for tag {} arrives oversize ({} payload bytes)", frame.tag, new_len)));
        }
        let res = rx.receive_frame(&frame.bytes);
        if tearing_down() {
            return Y::Done;
        }
        with_ctx(|c| {
            c.log(|| {
                format!(
                    "    rx: receive_frame(tag {}{}) -> {:?}",
                    frame.tag,
                    if frame.dup { ", duplicate" } else { "" },
                    res
                )
            })
        });
        w(|w| w.on_received(&frame, res));
    }
}

impl World {
    fn on_transmit(&mut self, bytes: Vec<u8>, ok: bool) {
        if !ok {
            return;
        }
        // Which request is this? Identify by the address field of the first datagram; verify the
        // whole frame against the independent encoder.
        let Some(pdus) = walk_pdus(&bytes) else {
            let sig = format!("tx-frame-malformed cause={}", primary_cause(&self.flags));
            self.violate(sig, format!("transmitted frame does not parse: {:02x?}", bytes));
            return;
        };
        let tag = pdus.first().map(|p| p.3.wrapping_sub(0x1000)).unwrap_or(0);
        let idxs: Vec<u8> = pdus.iter().map(|p| p.2).collect();
        let cause = primary_cause(&self.flags);
        let lose_first = self.cfg.lose_first;
        let Some(rs) = self.reqs.iter_mut().find(|r| r.tag == tag) else {
            let sig = format!("tx-frame-unknown-request cause={}", cause);
            self.violate(sig, format!("transmitted frame belongs to no request: {:02x?}", bytes));
            return;
        };
        let nth = rs.transmissions.len();
        let mut bad = None;
        if idxs.len() != rs.exp.len() || encode_request(&rs.exp, &idxs) != bytes {
            bad = Some(format!(
                "transmitted frame of request tag {} is not the encoding of that request (torn or mixed): got {:02x?} want {:02x?}",
                tag,
                bytes,
                encode_request(&rs.exp, &idxs.iter().copied().chain(std::iter::repeat(0)).take(rs.exp.len()).collect::<Vec<_>>())
            ));
        } else if let Some(first) = rs.transmissions.first() {
            if *first != bytes {
                bad = Some(format!(
                    "retransmission {} of request tag {} differs from the first transmission",
                    nth, tag
                ));
            }
        }
        rs.transmissions.push(bytes.clone());
        if let Some(msg) = bad {
            let sig = format!("tx-frame-corrupt cause={}", cause);
            self.violate(sig, msg);
            // the segment answers whatever arrives
        }
        if nth < lose_first || self.cfg.lose_tags.contains(&tag) {
            return;
        }
        if let Some(resp) = make_response(&bytes) {
            self.in_flight.push(WireFrame {
                bytes: resp,
                tag,
                dup: false,
            });
        }
    }

    fn on_received(&mut self, frame: &WireFrame, res: Result<ethercrab::ReceiveAction, Error>) {
        // Rx is no longer inside any buffer
        let t = self.cur_task;
        for toks in self.tokens.iter_mut() {
            toks.retain(|(task, role)| !(*task == t && *role == Role::Rx));
        }
        match res {
            Ok(ethercrab::ReceiveAction::Processed) => {
                if let Some(rs) = self.req_mut(frame.tag) {
                    rs.responses_delivered += 1;
                }
            }
            Ok(ethercrab::ReceiveAction::Ignored) => {
                self.rx_errors.push((frame.tag, "Ignored".into()));
            }
            Err(e) => {
                self.rx_errors.push((frame.tag, format!("{:?}", e)));
            }
        }
    }
}

// ---------------------------------------------------------------------------------------------
// The execution
// ---------------------------------------------------------------------------------------------

pub struct E1Harness {
    pub cfg: E1Cfg,
}

impl crate::core::Harness for E1Harness {
    fn name(&self) -> String {
        self.cfg.label.clone()
    }
    fn run(&self, ctx: &mut Ctx) -> RunResult {
        let mut r = run_e1(&self.cfg, ctx);
        // A consequence observed in an execution that went through one of the release windows is
        // identified by that window (the history feature), the symptom only qualifies it.
        for v in r.violations.iter_mut() {
            if let Some((symptom, cause)) = v.signature.rsplit_once(" cause=") {
                if cause != "none" && !cause.contains(' ') {
                    v.signature = format!("window={} {}", cause, symptom);
                }
            }
        }
        r
    }
    fn params(&self) -> serde_json::Value {
        serde_json::json!({"engine": "e1", "label": self.cfg.label, "prop": format!("{:?}", self.cfg.prop)})
    }
}

fn snapshot(pl: &PduLoop<'_>, n: usize) -> (Vec<SlotSnap>, u8, u8) {
    let mut out = Vec::with_capacity(n);
    let mut buf = [0u8; DATA];
    for i in 0..n {
        let (status, first_pdu, len) = vf::slot_snapshot(pl, i, &mut buf);
        out.push(SlotSnap {
            status,
            first_pdu,
            len,
            buf: fnv(&buf),
        });
    }
    let (_, _, _, _, fi, pi) = vf::storage_layout(pl);
    (out, fi, pi)
}

pub fn run_e1(cfg: &E1Cfg, ctx: &mut Ctx) -> RunResult {
    if !HOOK_INSTALLED.with(|h| h.replace(true)) {
        vf::install(Some(hook));
    }
    TEARDOWN.with(|t| t.set(false));
    clock::reset();
    CTX.with(|c| c.set(ctx as *mut Ctx));

    let sto = Sto::new(cfg.slots);
    let (tx, rx, pdu_loop) = sto.split();
    let timeouts = Timeouts {
        state_transition: Duration::from_millis(10),
        pdu: Duration::from_micros(100),
        eeprom: Duration::from_millis(10),
        wait_loop_delay: Duration::ZERO,
        mailbox_echo: Duration::from_millis(1),
        mailbox_response: Duration::from_millis(10),
    };
    let config = MainDeviceConfig {
        dc_static_sync_iterations: 0,
        retry_behaviour: match cfg.retry {
            Retry::None => RetryBehaviour::None,
            Retry::Count(n) => RetryBehaviour::Count(n),
            Retry::Forever => RetryBehaviour::Forever,
        },
    };
    let md_ptr: *mut MainDevice<'static> =
        Box::into_raw(Box::new(MainDevice::new(pdu_loop, timeouts, config)));
    let md: &'static MainDevice<'static> = unsafe { &*md_ptr };
    let pl = md.verif_pdu_loop();
    let (n, _dl, base, stride, _, _) = vf::storage_layout(pl);
    assert_eq!(n, cfg.slots);

    // world
    let mut reqs = Vec::new();
    for (t, script) in cfg.apps.iter().enumerate() {
        for (r, req) in script.iter().enumerate() {
            let tag = tag_of(t, r);
            reqs.push(ReqState {
                tag,
                task: t,
                req: req.clone(),
                exp: expected_pdus(tag, req),
                outcome: None,
                transmissions: Vec::new(),
                responses_delivered: 0,
                deadline_fired_unserviced: false,
                deadline_firings: 0,
            });
        }
    }
    let napps = cfg.apps.len();
    let ntasks = napps + 2 + usize::from(cfg.clock);
    let mut names: Vec<String> = (0..napps).map(|i| format!("app{}", i)).collect();
    names.push("tx".into());
    names.push("rx".into());
    if cfg.clock {
        names.push("clock".into());
    }
    WORLD.with(|wc| {
        *wc.borrow_mut() = Some(World {
            cfg: cfg.clone(),
            reqs,
            views: Vec::new(),
            in_flight: Vec::new(),
            apps_left: napps,
            shutdown: false,
            violations: Vec::new(),
            flags: BTreeSet::new(),
            base,
            stride,
            tokens: vec![Vec::new(); cfg.slots],
            generation: vec![0; cfg.slots],
            owner: vec![None; cfg.slots],
            owner_tag: vec![None; cfg.slots],
            slot_flags: vec![BTreeSet::new(); cfg.slots],
            cur_task: 0,
            cur_tag: vec![None; ntasks],
            global_steps: 0,
            rx_errors: Vec::new(),
            last_parse: vec![None; ntasks],
            lookup_gen: vec![0; cfg.slots],
            task_names: names.clone(),
            tx_panics: 0,
        })
    });

    // tasks
    let mut tasks: Vec<Task> = Vec::new();
    for (t, script) in cfg.apps.iter().enumerate() {
        let flag = Arc::new(WakeFlag(AtomicBool::new(false)));
        let f2 = flag.clone();
        let script = script.clone();
        let c2 = cfg.clone();
        let gen = spawn_co(move || app_body(t, script, md, f2, c2));
        tasks.push(Task {
            name: names[t].clone(),
            is_app: true,
            gen: Some(gen),
            pending: None,
            blocked: None,
            done: false,
            flag,
            steps: 0,
        });
    }
    {
        let flag = Arc::new(WakeFlag(AtomicBool::new(false)));
        let f2 = flag.clone();
        let c2 = cfg.clone();
        let gen = spawn_co(move || tx_body(tx, f2, c2));
        tasks.push(Task {
            name: "tx".into(),
            is_app: false,
            gen: Some(gen),
            pending: None,
            blocked: None,
            done: false,
            flag,
            steps: 0,
        });
    }
    {
        let flag = Arc::new(WakeFlag(AtomicBool::new(false)));
        let c2 = cfg.clone();
        let gen = spawn_co(move || rx_body(rx, c2));
        tasks.push(Task {
            name: "rx".into(),
            is_app: false,
            gen: Some(gen),
            pending: None,
            blocked: None,
            done: false,
            flag,
            steps: 0,
        });
    }
    let tx_id = napps;
    let clock_id = if cfg.clock {
        tasks.push(Task {
            name: "clock".into(),
            is_app: false,
            gen: None,
            pending: None,
            blocked: None,
            done: false,
            flag: Arc::new(WakeFlag(AtomicBool::new(false))),
            steps: 0,
        });
        Some(tasks.len() - 1)
    } else {
        None
    };

    let mut current: Option<usize> = None;
    let mut steps = 0usize;
    let mut end = "complete";
    let mut panicked: Option<String> = None;
    let mut epilogue = false;
    let mut clock_firings = 0usize;

    loop {
        if steps >= cfg.horizon {
            end = "horizon";
            break;
        }
        // shutdown once every app finished
        let (apps_left, shutdown, wire) = w(|w| (w.apps_left, w.shutdown, w.in_flight.len()));
        if apps_left == 0 && !shutdown {
            w(|w| w.shutdown = true);
            tasks[tx_id].flag.0.store(true, Ordering::SeqCst);
            epilogue = true;
        }
        let gsteps = w(|w| w.global_steps);
        let tx_serviced = !cfg.clock_waits_for_tx
            || w(|w| {
                w.reqs
                    .iter()
                    .all(|r| r.outcome.is_some() || r.transmissions.len() > clock_firings)
            });
        let enabled: Vec<usize> = (0..tasks.len())
            .filter(|&i| {
                let t = &tasks[i];
                if t.done {
                    return false;
                }
                if Some(i) == clock_id {
                    return apps_left > 0
                        && clock_firings < cfg.max_clock_firings
                        && tx_serviced
                        && clock::next_deadline().is_some();
                }
                if cfg.tx_dead && i == tx_id && !shutdown {
                    return false;
                }
                match t.blocked {
                    None => true,
                    Some(Cond::Waker) => t.flag.0.load(Ordering::SeqCst) || (shutdown && !t.is_app),
                    Some(Cond::Wire) => wire > 0 || shutdown,
                    Some(Cond::Progress(g)) => gsteps > g,
                }
            })
            .collect();
        if enabled.is_empty() {
            if tasks.iter().enumerate().all(|(i, t)| t.done || Some(i) == clock_id) {
                break;
            }
            end = "deadlock";
            break;
        }
        // The clock is an environment action: letting time pass while something else could run
        // is an environment deviation (not a preemption); when nothing else can run it is forced.
        let clock_enabled = clock_id.map(|c| enabled.contains(&c)).unwrap_or(false);
        let others: Vec<usize> = enabled.iter().copied().filter(|x| Some(*x) != clock_id).collect();
        let pick = if epilogue {
            enabled[0]
        } else if clock_enabled && (others.is_empty() || ctx.choose(Kind::Env, 2) == 1) {
            clock_id.unwrap()
        } else {
            let (order, kind) = match current {
                Some(c) if others.contains(&c) => {
                    let mut o = vec![c];
                    o.extend(others.iter().copied().filter(|&x| x != c));
                    (o, Kind::Preempt)
                }
                _ => (others.clone(), Kind::Free),
            };
            order[ctx.choose(kind, order.len())]
        };

        // ---- one step ----
        let (pre, _, _) = snapshot(pl, cfg.slots);
        let pending = tasks[pick].pending.take();
        w(|w| {
            w.cur_task = pick;
        });
        if ctx.tracing() {
            let nm = tasks[pick].name.clone();
            let pe = pending;
            ctx.log(|| match pe {
                Some(e) => format!("{} {}", nm, fmt_event(&e, base, stride)),
                None => format!("{} (start/resume)", nm),
            });
        }
        // ownership check for the access about to be performed
        if let Some(e) = pending {
            w(|w| w.before_access(pick, &e));
        }
        let y: Option<Y> = if Some(pick) == clock_id {
            let t = clock::fire_next();
            clock_firings += 1;
            ctx.log(|| format!("    clock: advanced to {:?} us and fired due timers", t));
            w(|w| w.on_clock_fired(&pre));
            Some(Y::Soft("clock"))
        } else {
            let g = tasks[pick].gen.as_mut().unwrap();
            match catch_unwind(AssertUnwindSafe(|| g.resume())) {
                Ok(v) => v,
                Err(p) => {
                    let msg = panic_msg(&p);
                    panicked = Some(format!("{} panicked: {}", tasks[pick].name, msg));
                    tasks[pick].done = true;
                    None
                }
            }
        };
        let (post, fi, pi) = snapshot(pl, cfg.slots);
        tasks[pick].steps += 1;
        tasks[pick].blocked = None;
        match y {
            Some(Y::Point(e)) => tasks[pick].pending = Some(e),
            Some(Y::Soft(_)) => {}
            Some(Y::Blocked(c)) => tasks[pick].blocked = Some(c),
            Some(Y::Done) | None => tasks[pick].done = true,
        }
        // a blocked task does not count as "progress by another task"
        let progressed = !matches!(y, Some(Y::Blocked(_)));
        w(|w| {
            if progressed {
                w.global_steps += 1;
            }
            w.after_step(pick, pending.as_ref(), &pre, &post);
            w.check_views();
        });
        if ctx.tracing() {
            for (i, (a, b)) in pre.iter().zip(post.iter()).enumerate() {
                if a != b {
                    let (a, b) = (a.clone(), b.clone());
                    ctx.log(|| {
                        format!(
                            "    slot{}: {} first_pdu={:#06x} len={} -> {} first_pdu={:#06x} len={}{}",
                            i,
                            st_name(a.status),
                            a.first_pdu,
                            a.len,
                            st_name(b.status),
                            b.first_pdu,
                            b.len,
                            if a.buf != b.buf { " (buffer changed)" } else { "" }
                        )
                    });
                }
            }
        }
        // state hash for statistics
        let mut h = 0xcbf29ce484222325u64;
        for s in &post {
            h = fnv_mix(h, u64::from(s.status));
            h = fnv_mix(h, u64::from(s.first_pdu));
            h = fnv_mix(h, s.len as u64);
            h = fnv_mix(h, s.buf);
        }
        h = fnv_mix(h, u64::from(fi % cfg.slots as u8));
        h = fnv_mix(h, u64::from(pi));
        for t in &tasks {
            h = fnv_mix(h, t.steps);
        }
        ctx.state_hashes.push(h);
        ctx.transitions += 1;
        steps += 1;
        current = Some(pick);
        if panicked.is_some() {
            end = "panic";
            break;
        }
    }

    // ---- end of execution: final oracle ----
    let unfinished: Vec<String> = tasks
        .iter()
        .enumerate()
        .filter(|(i, t)| !t.done && Some(*i) != clock_id)
        .map(|(_, t)| t.name.clone())
        .collect();
    let final_snap = snapshot(pl, cfg.slots).0;
    let result = w(|w| w.finish(end, &unfinished, panicked.as_deref(), &final_snap));

    // ---- teardown ----
    TEARDOWN.with(|t| t.set(true));
    for t in tasks.iter_mut() {
        if let Some(g) = t.gen.as_mut() {
            let mut guard = 0;
            while !t.done && !g.is_done() && guard < 64 {
                let r = catch_unwind(AssertUnwindSafe(|| g.resume()));
                guard += 1;
                match r {
                    Ok(Some(Y::Done)) | Ok(None) | Err(_) => break,
                    Ok(Some(_)) => {}
                }
            }
        }
    }
    // views hold pointers into the storage: drop the world first
    let world = WORLD.with(|wc| wc.borrow_mut().take());
    drop(world);
    for t in tasks.iter_mut() {
        if let Some(g) = t.gen.take() {
            if g.is_done() {
                POOL.with(|p| p.borrow_mut().push(g));
            } else {
                // Could not be driven to completion: leak rather than unwind foreign frames.
                std::mem::forget(g);
            }
        }
    }
    drop(tasks);
    unsafe {
        drop(Box::from_raw(md_ptr));
        sto.free();
    }
    CTX.with(|c| c.set(std::ptr::null_mut()));
    TEARDOWN.with(|t| t.set(false));
    clock::reset();
    result
}

pub fn panic_msg(p: &Box<dyn std::any::Any + Send>) -> String {
    if let Some(s) = p.downcast_ref::<&str>() {
        s.to_string()
    } else if let Some(s) = p.downcast_ref::<String>() {
        s.clone()
    } else {
        "non-string panic".into()
    }
}

fn fmt_event(e: &Event, base: usize, stride: usize) -> String {
    let s = |addr: usize| -> String {
        if addr >= base && stride > 0 {
            format!("slot{}", (addr - base) / stride)
        } else {
            "slot?".into()
        }
    };
    match e {
        Event::StatusStore { slot, to } => format!("StatusStore {} <- {}", s(*slot), st_name(*to)),
        Event::StatusCas { slot, from, to } => {
            format!("StatusCas {} {}->{}", s(*slot), st_name(*from), st_name(*to))
        }
        Event::MetaWrite { slot } => format!("MetaWrite {}", s(*slot)),
        Event::FirstPduLoad { slot } => format!("FirstPduLoad {}", s(*slot)),
        Event::FirstPduCas { slot, value } => format!("FirstPduCas {} <- {:#04x}", s(*slot), value),
        Event::FirstPduStore { slot } => format!("FirstPduStore {} <- EMPTY", s(*slot)),
        Event::WakerReset { slot } => format!("WakerReset {}", s(*slot)),
        Event::WakerRegister { slot } => format!("WakerRegister {}", s(*slot)),
        Event::WakerTake { slot } => format!("WakerTake {}", s(*slot)),
        Event::PduIdxRmw => "PduIdxRmw".into(),
        Event::FrameIdxRmw => "FrameIdxRmw".into(),
        Event::Reset => "Reset".into(),
        Event::TxWakerWake => "TxWakerWake".into(),
        Event::TxWakerRegister => "TxWakerRegister".into(),
        Event::TimerPoll { slot } => format!("TimerPoll {}", s(*slot)),
        Event::Buffer { slot, what, len } => format!("Buffer {:?} {} len={}", what, s(*slot), len),
    }
}

// ---------------------------------------------------------------------------------------------
// Monitors
// ---------------------------------------------------------------------------------------------

/// Documented lifecycle edges (C02), plus the documented release/retry edges of a request future
/// (they only occur in C06 harnesses).
fn edge_allowed(old: u8, new: u8, prop: Prop) -> bool {
    let normal = matches!(
        (old, new),
        (0, 1) | (1, 2) | (1, 0) | (2, 3) | (3, 4) | (3, 2) | (4, 5) | (5, 6) | (6, 7) | (7, 0)
    );
    if normal {
        return true;
    }
    if prop == Prop::C06 {
        // timeout/abandon release and retry re-arm by the waiting future
        return matches!((old, new), (2, 0) | (4, 0) | (4, 2) | (2, 2) | (6, 0));
    }
    false
}

impl World {
    fn name(&self, t: usize) -> String {
        self.task_names.get(t).cloned().unwrap_or_else(|| format!("t{}", t))
    }

    fn holder(&self, slot: usize, role: Role, task: usize) -> bool {
        self.tokens[slot].iter().any(|(t, r)| *t == task && *r == role)
    }

    /// Called right before `task` performs the access it announced.
    fn before_access(&mut self, task: usize, e: &Event) {
        match *e {
            Event::Buffer { slot, what, .. } => {
                let (slot_idx, need) = match what {
                    Buf::View => (self.slot_of_addr(slot), Role::Reader),
                    Buf::Init | Buf::Pdu | Buf::Flags | Buf::Header => {
                        (self.slot_of_addr(slot), Role::Builder)
                    }
                    Buf::TxBegin => (self.slot_of_addr(slot), Role::Tx),
                    Buf::RxBegin => (self.slot_of_addr(slot), Role::Rx),
                    Buf::Parse => (self.slot_of_addr(slot), Role::Reader),
                };
                let Some(s) = slot_idx else { return };
                if what == Buf::Parse {
                    self.last_parse[task] = Some((s, self.generation[s]));
                }
                let mine = self.holder(s, need, task);
                let others: Vec<(usize, Role)> = self.tokens[s]
                    .iter()
                    .copied()
                    .filter(|(t, _)| *t != task)
                    .collect();
                if !mine && what == Buf::View {
                    // Reading a response view after its frame was released: the statement only
                    // forbids this while another party is inside the buffer.
                    if !others.is_empty() {
                        let sig = format!(
                            "view-read-while-slot-held-by-other roles={:?}",
                            others.iter().map(|o| o.1).collect::<Vec<_>>()
                        );
                        let msg = format!(
                            "{} reads its response view in slot {} while {:?} hold the buffer",
                            self.name(task), s, others
                        );
                        self.violate_c02(sig, msg);
                    }
                } else if !mine {
                    let sig = format!(
                        "buffer-access-without-ownership what={:?} others={}",
                        what,
                        if others.is_empty() { "none".to_string() } else { format!("{:?}", others.iter().map(|o| o.1).collect::<Vec<_>>()) }
                    );
                    let msg = format!(
                        "{} touches buffer of slot {} ({:?}) without holding it; state {:?}; other parties inside: {:?}",
                        self.name(task), s, what, self.tokens[s], others
                    );
                    self.slot_flags[s].insert(format!("unowned-{:?}", what));
                    self.violate_c02(sig, msg);
                } else if !others.is_empty() {
                    let sig = format!(
                        "two-parties-in-buffer what={:?} other={:?}",
                        what,
                        others.iter().map(|o| o.1).collect::<Vec<_>>()
                    );
                    let msg = format!(
                        "{} touches buffer of slot {} ({:?}) while {:?} are inside",
                        self.name(task), s, what, others
                    );
                    self.violate_c02(sig, msg);
                }
            }
            Event::FirstPduLoad { slot } => {
                if let Some(s) = self.slot_of_addr(slot) {
                    self.lookup_gen[s] = self.generation[s];
                }
            }
            Event::FirstPduStore { slot } | Event::FirstPduCas { slot, .. } => {
                // writing the lookup key of a slot the task does not hold
                if let Some(s) = self.slot_of_addr(slot) {
                    let mine = self.tokens[s].iter().any(|(t, _)| *t == task);
                    if !mine && matches!(e, Event::FirstPduStore { .. }) {
                        // Only a problem if somebody else owns the slot by now.
                        if let Some(o) = self.owner[s] {
                            if o != task {
                                self.slot_flags[s].insert("first-pdu-cleared-by-previous-owner".into());
                                self.flags.insert("first-pdu-cleared-by-previous-owner".into());
                            }
                        }
                    }
                }
            }
            _ => {}
        }
    }

    fn violate_c02(&mut self, sig: String, msg: String) {
        // Ownership and lifecycle clauses are C02's business; C01/C06 harnesses only use them as
        // cause flags (C06 judges consequences: corrupted frames, wrong data, lost slots, panics).
        if self.cfg.prop == Prop::C02 {
            self.violate(sig, msg);
        }
    }

    /// Called after each step with the snapshots around it.
    fn after_step(&mut self, task: usize, ev: Option<&Event>, pre: &[SlotSnap], post: &[SlotSnap]) {
        let prop = self.cfg.prop;
        let mut changed = 0;
        for s in 0..pre.len() {
            let (a, b) = (pre[s].status, post[s].status);
            if a == b {
                continue;
            }
            changed += 1;
            if !edge_allowed(a, b, prop) {
                let sig = format!("lifecycle-edge {}->{}", st_name(a), st_name(b));
                let msg = format!(
                    "{} changed slot {} from {} to {}, which is not an edge of the documented lifecycle (tokens {:?})",
                    self.name(task), s, st_name(a), st_name(b), self.tokens[s]
                );
                self.slot_flags[s].insert(format!("edge-{}-{}", st_name(a), st_name(b)));
                self.violate_c02(sig, msg);
            }
            // a release/retry store by the waiting future while somebody is inside the buffer
            if matches!(b, 0 | 2) && !matches!((a, b), (3, 2) | (1, 2) | (1, 0) | (7, 0)) {
                let inside: Vec<(usize, Role)> = self.tokens[s]
                    .iter()
                    .copied()
                    .filter(|(t, _)| *t != task)
                    .collect();
                if !inside.is_empty() {
                    let f = format!("released-while-{:?}", inside[0].1);
                    self.slot_flags[s].insert(f.clone());
                    self.flags.insert(f);
                }
            }
            match (a, b) {
                (0, 1) => {
                    if !self.tokens[s].is_empty() {
                        let sig = format!(
                            "slot-given-to-new-request-while-held by={:?}",
                            self.tokens[s].iter().map(|t| t.1).collect::<Vec<_>>()
                        );
                        let msg = format!(
                            "{} allocated slot {} while {:?} still hold it",
                            self.name(task), s, self.tokens[s]
                        );
                        self.violate_c02(sig, msg);
                    }
                    self.tokens[s].push((task, Role::Builder));
                    self.generation[s] += 1;
                    self.owner[s] = Some(task);
                    self.owner_tag[s] = self.cur_tag.get(task).copied().flatten();
                    self.slot_flags[s].clear();
                }
                (2, 3) => self.tokens[s].push((task, Role::Tx)),
                (4, 5) => {
                    if self.lookup_gen[s] != self.generation[s] {
                        // the slot found by index was released and re-allocated before the claim
                        self.slot_flags[s].insert("rx-claim-after-slot-reuse".into());
                        self.flags.insert("rx-claim-after-slot-reuse".into());
                    }
                    self.tokens[s].push((task, Role::Rx))
                }
                (6, 7) => self.tokens[s].push((task, Role::Reader)),
                _ => {}
            }
            if b == 0 {
                self.owner[s] = None;
            }
        }
        if changed > 1 {
            self.violate(
                "machinery-two-status-changes-in-one-step".into(),
                "a single step changed the status of two slots".into(),
            );
        }
        // releases are event based (the store/CAS that ends a role, performed by its holder)
        if let Some(e) = ev {
            match *e {
                Event::StatusStore { slot, to } => {
                    if let Some(s) = self.slot_of_addr(slot) {
                        match to {
                            2 => {
                                // builder -> sendable, tx release after failed send, or retry
                                self.tokens[s].retain(|(t, r)| {
                                    !(*t == task && matches!(r, Role::Builder | Role::Tx))
                                });
                            }
                            4 => self.tokens[s].retain(|(t, r)| !(*t == task && *r == Role::Tx)),
                            0 => {
                                self.tokens[s].retain(|(t, _)| *t != task);
                            }
                            _ => {}
                        }
                    }
                }
                Event::StatusCas { slot, from, to } => {
                    if let Some(s) = self.slot_of_addr(slot) {
                        match (from, to) {
                            (1, 0) => self.tokens[s]
                                .retain(|(t, r)| !(*t == task && *r == Role::Builder)),
                            (3, 4) | (3, 2) => {
                                self.tokens[s].retain(|(t, r)| !(*t == task && *r == Role::Tx))
                            }
                            (5, 6) => {
                                self.tokens[s].retain(|(t, r)| !(*t == task && *r == Role::Rx))
                            }
                            (7, 0) => self.tokens[s]
                                .retain(|(t, r)| !(*t == task && *r == Role::Reader)),
                            _ => {}
                        }
                    }
                }
                _ => {}
            }
        }
        for s in 0..self.tokens.len() {
            if self.tokens[s].len() > 1 {
                let roles: Vec<Role> = self.tokens[s].iter().map(|t| t.1).collect();
                let sig = format!("two-parties-hold-slot roles={:?}", roles);
                let msg = format!("slot {} is held by {:?} at the same time", s, self.tokens[s]);
                self.violate_c02(sig, msg);
            }
        }
    }

    fn on_clock_fired(&mut self, pre: &[SlotSnap]) {
        // C06 transmission-count precondition: Tx had serviced every sendable frame when a
        // deadline fired, i.e. the slot of every outstanding request was Sent.
        // In trace terms: when the k-th deadline fires while a request is outstanding, its k-th
        // transmission must already have happened (over-approximated: every firing is counted
        // against every outstanding request, which can only exclude more executions from the
        // count clause, never judge one wrongly).
        let mut outstanding: Vec<u16> = Vec::new();
        for s in 0..pre.len() {
            if pre[s].status != 0 {
                if let Some(tag) = self.owner_tag[s] {
                    outstanding.push(tag);
                }
            }
        }
        for tag in outstanding {
            if let Some(rs) = self.req_mut(tag) {
                rs.deadline_firings += 1;
                if rs.transmissions.len() < rs.deadline_firings {
                    rs.deadline_fired_unserviced = true;
                }
            }
        }
    }

    /// A caller holding a view may read it at any instant: compare every held view now.
    fn check_views(&mut self) {
        let mut found: Vec<(String, String)> = Vec::new();
        for v in self.views.iter_mut() {
            if v.reported {
                continue;
            }
            let now = read_view(&v.view);
            if now != v.expected {
                v.reported = true;
                let reused = v.slot.map(|s| self.generation[s] > v.generation).unwrap_or(false);
                let sig = if reused {
                    "view-changed-after-slot-reuse".to_string()
                } else {
                    "view-wrong-without-slot-reuse".to_string()
                };
                found.push((
                    sig,
                    format!(
                        "view of request tag {} datagram {} held by app{} shows {:02x?}, the network returned {:02x?} (slot {:?} re-allocated since: {})",
                        v.tag, v.pdu_no, v.task, now, v.expected, v.slot, reused
                    ),
                ));
            }
        }
        if self.cfg.prop == Prop::C01 || self.cfg.prop == Prop::C06 {
            for (s, m) in found {
                self.violate(s, m);
            }
        }
    }

    fn finish(
        &mut self,
        end: &str,
        unfinished: &[String],
        panicked: Option<&str>,
        final_snap: &[SlotSnap],
    ) -> RunResult {
        let prop = self.cfg.prop;
        if let Some(p) = panicked {
            let site = p.split(':').next().unwrap_or("").to_string();
            self.violate(format!("panic {}", sanitize(p)), format!("{} ({})", p, site));
        }
        let flagstr = primary_cause(&self.flags);
        let mut outcome_parts: Vec<String> = Vec::new();
        let mut nontrivial = false;
        let mut viol: Vec<(String, String)> = Vec::new();
        // did two requests overlap in time or share a slot?
        if self.generation.iter().any(|g| *g > 1) || self.reqs.len() > 1 {
            nontrivial = true;
        }
        for rs in &self.reqs {
            let want: Vec<(Vec<u8>, bool)> =
                rs.exp.iter().map(|p| (p.resp_data.clone(), true)).collect();
            let o = match &rs.outcome {
                None => "unfinished".to_string(),
                Some(Outcome::Ok(got)) if *got == want => "ok".to_string(),
                Some(Outcome::Ok(_)) => "ok-WRONG".to_string(),
                Some(Outcome::OkStaleView(_)) => "ok-stale-view".to_string(),
                Some(Outcome::Err(e)) => format!("err({})", e),
                Some(Outcome::Abandoned) => "abandoned".to_string(),
                Some(Outcome::AllocStarved) => "alloc-starved".to_string(),
            };
            outcome_parts.push(format!("t{}:{}x{}", rs.tag, o, rs.transmissions.len()));
            match prop {
                Prop::C01 => match &rs.outcome {
                    Some(Outcome::Ok(got)) if *got == want => {}
                    Some(Outcome::Ok(got)) => viol.push((
                        format!("completed-with-wrong-data cause={}", flagstr),
                        format!(
                            "request tag {} of app{} completed with {:02x?} but the network returned {:02x?}",
                            rs.tag, rs.task, got, want
                        ),
                    )),
                    Some(Outcome::Err(e)) => viol.push((
                        format!("request-failed err={} cause={}", sanitize(e), flagstr),
                        format!(
                            "request tag {} of app{} failed with {} although its response was handed to the receive side (rx results: {:?})",
                            rs.tag, rs.task, e, self.rx_errors
                        ),
                    )),
                    Some(Outcome::AllocStarved) => viol.push((
                        "alloc-starved".into(),
                        format!("request tag {} never got a slot", rs.tag),
                    )),
                    Some(Outcome::Abandoned) | Some(Outcome::OkStaleView(_)) => {}
                    None => viol.push((
                        format!("request-never-completed end={} cause={}", end, flagstr),
                        format!(
                            "request tag {} of app{} never completed ({}; unfinished tasks {:?}; rx results {:?})",
                            rs.tag, rs.task, end, unfinished, self.rx_errors
                        ),
                    )),
                },
                Prop::C02 => {}
                Prop::C06 => {}
            }
        }
        if prop == Prop::C06 {
            self.finish_c06(end, unfinished, &flagstr, &mut viol, final_snap);
        }
        if prop == Prop::C02 && (end == "deadlock" || end == "horizon") {
            // not a C02 clause; recorded in the outcome only
        }
        for (s, m) in viol {
            self.violate(s, m);
        }
        let outcome = format!("{} [{}]", end, outcome_parts.join(" "));
        RunResult {
            violations: std::mem::take(&mut self.violations),
            outcome,
            nontrivial,
        }
    }

    fn finish_c06(
        &mut self,
        end: &str,
        unfinished: &[String],
        flagstr: &str,
        viol: &mut Vec<(String, String)>,
        final_snap: &[SlotSnap],
    ) {
        let retries = match self.cfg.retry {
            Retry::None => Some(0),
            Retry::Count(n) => Some(n),
            Retry::Forever => None,
        };
        let lose_first = self.cfg.lose_first;
        for rs in &self.reqs {
            let want: Vec<(Vec<u8>, bool)> =
                rs.exp.iter().map(|p| (p.resp_data.clone(), true)).collect();
            let never_answered = rs.responses_delivered == 0
                && self.in_flight.iter().all(|f| f.tag != rs.tag)
                && !self.rx_errors.iter().any(|(t, _)| *t == rs.tag);
            match &rs.outcome {
                None => viol.push((
                    format!("request-hangs end={} cause={}", end, flagstr),
                    format!(
                        "request tag {} neither completed nor timed out ({}; unfinished {:?})",
                        rs.tag, end, unfinished
                    ),
                )),
                Some(Outcome::Ok(got)) => {
                    if *got != want {
                        viol.push((
                            format!("completed-with-wrong-data cause={}", flagstr),
                            format!(
                                "request tag {} completed with {:02x?}, the network returned {:02x?}",
                                rs.tag, got, want
                            ),
                        ));
                    }
                    if never_answered && rs.transmissions.len() <= lose_first {
                        viol.push((
                            "success-without-response".into(),
                            format!("request tag {} succeeded although no response was ever delivered", rs.tag),
                        ));
                    }
                }
                Some(Outcome::Err(e)) => {
                    let is_timeout = e.contains("Timeout(Pdu)");
                    if never_answered && !is_timeout {
                        viol.push((
                            format!("unanswered-request-wrong-error err={} cause={}", sanitize(e), flagstr),
                            format!("request tag {} was never answered but resolved to {}", rs.tag, e),
                        ));
                    }
                    if is_timeout && never_answered && !rs.deadline_fired_unserviced {
                        if let Some(r) = retries {
                            if rs.transmissions.len() != 1 + r {
                                viol.push((
                                    format!(
                                        "transmission-count got={} want={} cause={}",
                                        rs.transmissions.len(),
                                        1 + r,
                                        flagstr
                                    ),
                                    format!(
                                        "request tag {} timed out after {} transmissions, expected exactly 1 + {} retries",
                                        rs.tag,
                                        rs.transmissions.len(),
                                        r
                                    ),
                                ));
                            }
                        }
                    }
                    if !is_timeout && !never_answered {
                        // a request whose response was delivered (or is deliverable) but which
                        // fails for another reason: another request disturbed it
                        viol.push((
                            format!("request-failed err={} cause={}", sanitize(e), flagstr),
                            format!(
                                "request tag {} failed with {} (rx results {:?})",
                                rs.tag, e, self.rx_errors
                            ),
                        ));
                    }
                }
                Some(Outcome::Abandoned)
                | Some(Outcome::AllocStarved)
                | Some(Outcome::OkStaleView(_)) => {}
            }
        }
        // slot lost for good: after every handle is gone (all apps finished, views are plain
        // pointers) every slot must be allocatable again, i.e. None.
        if end == "complete" {
            for (s, snap) in final_snap.iter().enumerate() {
                if snap.status != 0 {
                    let f = primary_cause(&self.slot_flags[s]);
                    viol.push((
                        format!(
                            "slot-lost state={} cause={}",
                            st_name(snap.status),
                            f
                        ),
                        format!(
                            "after all requests ended and all handles were dropped slot {} is still {}",
                            s,
                            st_name(snap.status)
                        ),
                    ));
                }
            }
        }
    }
}

/// The window (cause class) an execution went through, by priority. Consequences observed in an
/// execution are attributed to the most specific window seen; `none` means no known window.
fn primary_cause(flags: &BTreeSet<String>) -> String {
    for c in [
        "released-while-Tx",
        "released-while-Rx",
        "rx-claim-after-slot-reuse",
        "first-pdu-cleared-by-previous-owner",
    ] {
        if flags.contains(c) {
            return c.to_string();
        }
    }
    "none".to_string()
}

fn sanitize(s: &str) -> String {
    s.chars()
        .map(|c| if c.is_ascii_alphanumeric() || "()_-:.{}".contains(c) { c } else { '_' })
        .take(80)
        .collect()
}

/// Map used by checks to describe a configuration in evidence files.
pub fn describe(cfg: &E1Cfg) -> BTreeMap<String, serde_json::Value> {
    let mut m = BTreeMap::new();
    m.insert("label".into(), serde_json::json!(cfg.label));
    m.insert("slots".into(), serde_json::json!(cfg.slots));
    m.insert(
        "apps".into(),
        serde_json::json!(cfg.apps.iter().map(|a| format!("{:?}", a)).collect::<Vec<_>>()),
    );
    m.insert("send_faults".into(), serde_json::json!(cfg.send_faults));
    m.insert("reorder".into(), serde_json::json!(cfg.reorder));
    m.insert("duplicates".into(), serde_json::json!(cfg.duplicates));
    m.insert("loss".into(), serde_json::json!(cfg.loss));
    m.insert("lose_first".into(), serde_json::json!(cfg.lose_first));
    m.insert("clock".into(), serde_json::json!(cfg.clock));
    m.insert("abandon".into(), serde_json::json!(cfg.abandon));
    m.insert("retry".into(), serde_json::json!(format!("{:?}", cfg.retry)));
    m
}
