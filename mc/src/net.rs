//! E3 `net`: the full MainDevice stack closed by the simulated segment under virtual time.

use crate::clock;
use crate::sim::Segment;
use ethercrab::{MainDevice, MainDeviceConfig, PduRx, PduStorage, PduTx, RetryBehaviour, Timeouts};
use std::cell::RefCell;
use std::future::Future;
use std::panic::{catch_unwind, AssertUnwindSafe};
use std::pin::Pin;
use std::sync::atomic::{AtomicBool, Ordering};
use std::sync::Arc;
use std::task::{Context, Poll, Wake, Waker};
use std::time::Duration;

pub const FRAMES: usize = 8;
pub const DATA: usize = 1100;

struct Flag(AtomicBool);
impl Wake for Flag {
    fn wake(self: Arc<Self>) {
        self.0.store(true, Ordering::SeqCst);
    }
    fn wake_by_ref(self: &Arc<Self>) {
        self.0.store(true, Ordering::SeqCst);
    }
}

#[derive(Debug, Clone, PartialEq)]
pub enum Stop {
    /// nothing can make progress any more (no frame in flight, no timer armed)
    Deadlock,
    /// budget exhausted: (polls, frames, virtual microseconds)
    Budget(String),
    Panic(String),
}

#[derive(Clone, Copy, Debug)]
pub struct Budget {
    pub polls: u64,
    pub frames: u64,
    pub virtual_us: u64,
}

impl Default for Budget {
    fn default() -> Self {
        Self {
            polls: 2_000_000,
            frames: 400_000,
            virtual_us: 120_000_000,
        }
    }
}

pub fn timeouts() -> Timeouts {
    Timeouts {
        state_transition: Duration::from_millis(5),
        pdu: Duration::from_micros(300),
        eeprom: Duration::from_millis(2),
        wait_loop_delay: Duration::ZERO,
        mailbox_echo: Duration::from_millis(2),
        mailbox_response: Duration::from_millis(5),
    }
}

/// One MainDevice + TX/RX pair + the segment it talks to.
macro_rules! storages {
    ($($name:ident => $d:expr),* ; $($name2:ident => ($n2:expr, $d2:expr)),*) => {
        enum StoPtr { $($name(*mut PduStorage<FRAMES, $d>),)* $($name2(*mut PduStorage<$n2, $d2>)),* }
        impl StoPtr {
            fn new(data: usize) -> (Self, PduTx<'static>, PduRx<'static>, ethercrab::PduLoop<'static>) {
                Self::new_n(FRAMES, data)
            }
            fn new_n(frames: usize, data: usize) -> (Self, PduTx<'static>, PduRx<'static>, ethercrab::PduLoop<'static>) {
                $( if data == $d && frames == FRAMES {
                    let p: *mut PduStorage<FRAMES, $d> = Box::into_raw(Box::new(PduStorage::new()));
                    let (a, b, c) = unsafe { (&*p).try_split().unwrap() };
                    return (StoPtr::$name(p), a, b, c);
                } )*
                $( if data == $d2 && frames == $n2 {
                    let p: *mut PduStorage<$n2, $d2> = Box::into_raw(Box::new(PduStorage::new()));
                    let (a, b, c) = unsafe { (&*p).try_split().unwrap() };
                    return (StoPtr::$name2(p), a, b, c);
                } )*
                panic!("no storage instantiated for {} frames of size {}", frames, data);
            }
            unsafe fn free(&self) {
                unsafe { match self { $(StoPtr::$name(p) => drop(Box::from_raw(*p)),)* $(StoPtr::$name2(p) => drop(Box::from_raw(*p))),* } }
            }
        }
        pub const NET_SIZES: &[usize] = &[$($d),*];
    };
}

storages!(S44 => 44, S50 => 50, S52 => 52, S60 => 60, S64 => 64, S80 => 80, S100 => 100, S128 => 128, S256 => 256, S1100 => 1100, S1514 => 1514;
    N1 => (1, 1100), N2 => (2, 1100), N4 => (4, 1100), N16 => (16, 1100));

pub struct Net {
    sto: StoPtr,
    md: *mut MainDevice<'static>,
    pub tx: PduTx<'static>,
    pub rx: PduRx<'static>,
    pub seg: RefCell<Segment>,
    /// virtual microseconds charged per frame round trip
    pub latency_us: u64,
    pub polls: u64,
    pub frames: u64,
    pub budget: Budget,
    pub rx_errors: Vec<String>,
}

impl Net {
    pub fn new(seg: Segment) -> Self {
        Self::with(seg, timeouts(), RetryBehaviour::None)
    }

    pub fn with(seg: Segment, timeouts: Timeouts, retry: RetryBehaviour) -> Self {
        Self::with_size(seg, timeouts, retry, DATA)
    }

    pub fn with_cfg(seg: Segment, timeouts: Timeouts, config: MainDeviceConfig) -> Self {
        let mut n = Self::with_size(seg, timeouts, config.retry_behaviour, DATA);
        // replace the MainDevice configuration (the PDU loop is untouched)
        unsafe {
            let old = Box::from_raw(n.md);
            let pl = old.release();
            n.md = Box::into_raw(Box::new(MainDevice::new(pl, timeouts, config)));
        }
        n
    }

    pub fn with_size(seg: Segment, timeouts: Timeouts, retry: RetryBehaviour, data: usize) -> Self {
        Self::with_frames(seg, timeouts, retry, FRAMES, data)
    }

    pub fn with_frames(seg: Segment, timeouts: Timeouts, retry: RetryBehaviour, frames: usize, data: usize) -> Self {
        clock::reset();
        let (sto, tx, rx, pl) = StoPtr::new_n(frames, data);
        let md = Box::into_raw(Box::new(MainDevice::new(
            pl,
            timeouts,
            MainDeviceConfig {
                dc_static_sync_iterations: 0,
                retry_behaviour: retry,
            },
        )));
        Net {
            sto,
            md,
            tx,
            rx,
            seg: RefCell::new(seg),
            latency_us: 10,
            polls: 0,
            frames: 0,
            budget: Budget::default(),
            rx_errors: Vec::new(),
        }
    }

    pub fn md(&self) -> &'static MainDevice<'static> {
        unsafe { &*self.md }
    }

    /// Move every sendable frame through the segment and feed the answers to the receive side.
    /// Returns how many frames went round.
    pub fn pump(&mut self) -> usize {
        let mut n = 0;
        loop {
            let mut answers: Vec<Vec<u8>> = Vec::new();
            while let Some(f) = self.tx.next_sendable_frame() {
                let seg = &self.seg;
                let _ = f.send_blocking(|b| {
                    if let Some(a) = seg.borrow_mut().process(b) {
                        answers.push(a);
                    }
                    Ok(b.len())
                });
            }
            if answers.is_empty() {
                break;
            }
            for a in answers {
                clock::advance_by(self.latency_us);
                self.seg.borrow_mut().time_ns += self.latency_us * 1000;
                if let Err(e) = self.rx.receive_frame(&a) {
                    self.rx_errors.push(format!("{:?}", e));
                }
                n += 1;
                self.frames += 1;
            }
        }
        n
    }

    /// Run one future to completion.
    pub fn run<F: Future>(&mut self, fut: F) -> Result<F::Output, Stop> {
        let mut fut = Box::pin(fut);
        let flag = Arc::new(Flag(AtomicBool::new(true)));
        let waker = Waker::from(flag.clone());
        let mut cx = Context::from_waker(&waker);
        loop {
            if self.polls > self.budget.polls
                || self.frames > self.budget.frames
                || clock::now() > self.budget.virtual_us
            {
                return Err(Stop::Budget(format!(
                    "polls {} frames {} virtual {} us",
                    self.polls,
                    self.frames,
                    clock::now()
                )));
            }
            if flag.0.swap(false, Ordering::SeqCst) {
                self.polls += 1;
                let r = catch_unwind(AssertUnwindSafe(|| fut.as_mut().poll(&mut cx)));
                match r {
                    Ok(Poll::Ready(v)) => return Ok(v),
                    Ok(Poll::Pending) => {}
                    Err(p) => {
                        // the future is poisoned; leak it rather than run destructors on a
                        // half-unwound state
                        std::mem::forget(fut);
                        return Err(Stop::Panic(crate::e1::panic_msg(&p)));
                    }
                }
            }
            let moved = self.pump();
            if moved > 0 || flag.0.load(Ordering::SeqCst) {
                continue;
            }
            // nothing in flight: let virtual time pass to the next deadline
            if clock::fire_next().is_none() {
                return Err(Stop::Deadlock);
            }
        }
    }
}

impl Drop for Net {
    fn drop(&mut self) {
        unsafe {
            drop(Box::from_raw(self.md));
            self.sto.free();
        }
        clock::reset();
    }
}

/// Run several futures against one Net with an explicit scheduler: `pick(ready_tasks)` chooses
/// which ready task is polled next and `deliver(n_in_flight)` which in-flight answer arrives next.
pub fn run_many<'a, T>(
    net: &mut Net,
    mut futs: Vec<Pin<Box<dyn Future<Output = T> + 'a>>>,
    pick: &mut dyn FnMut(usize) -> usize,
    deliver: &mut dyn FnMut(usize) -> usize,
    horizon: u64,
    hold_frames: bool,
    held: &mut u32,
) -> Result<Vec<Option<T>>, Stop> {
    let n = futs.len();
    let flags: Vec<Arc<Flag>> = (0..n).map(|_| Arc::new(Flag(AtomicBool::new(true)))).collect();
    let mut out: Vec<Option<T>> = (0..n).map(|_| None).collect();
    let mut done = vec![false; n];
    let mut in_flight: Vec<Vec<u8>> = Vec::new();
    let mut steps = 0u64;
    loop {
        steps += 1;
        if steps > horizon {
            return Err(Stop::Budget(format!("horizon {} steps", horizon)));
        }
        if done.iter().all(|d| *d) {
            return Ok(out);
        }
        // transmit whatever is sendable; answers become in-flight
        while let Some(f) = net.tx.next_sendable_frame() {
            let seg = &net.seg;
            let _ = f.send_blocking(|b| {
                if let Some(a) = seg.borrow_mut().process(b) {
                    in_flight.push(a);
                }
                Ok(b.len())
            });
        }
        let ready: Vec<usize> = (0..n).filter(|i| !done[*i] && flags[*i].0.load(Ordering::SeqCst)).collect();
        // choice: poll a ready task or deliver an in-flight frame
        // with `hold_frames` a further option: the frames in flight are held longer than the PDU
        // timeout (frames delivered before this choice are not affected)
        let can_hold = hold_frames && !in_flight.is_empty();
        let options = ready.len() + usize::from(!in_flight.is_empty()) + usize::from(can_hold);
        if std::env::var("VX_NET_DEBUG").is_ok() {
            eprintln!("step {} ready {:?} in_flight {} timers {} now {}", steps, ready, in_flight.len(), clock::pending_timers(), clock::now());
        }
        if options == 0 {
            if clock::fire_next().is_none() {
                return Err(Stop::Deadlock);
            }
            continue;
        }
        let c = pick(options);
        if c < ready.len() {
            let i = ready[c];
            flags[i].0.store(false, Ordering::SeqCst);
            let waker = Waker::from(flags[i].clone());
            let mut cx = Context::from_waker(&waker);
            net.polls += 1;
            match catch_unwind(AssertUnwindSafe(|| futs[i].as_mut().poll(&mut cx))) {
                Ok(Poll::Ready(v)) => {
                    out[i] = Some(v);
                    done[i] = true;
                }
                Ok(Poll::Pending) => {}
                Err(p) => return Err(Stop::Panic(crate::e1::panic_msg(&p))),
            }
        } else if can_hold && c == options - 1 {
            // every frame still in flight is now later than its sender is willing to wait
            *held += 1;
            clock::advance_by(timeouts().pdu.as_micros() as u64 + 1);
        } else {
            let k = deliver(in_flight.len());
            let a = in_flight.remove(k);
            clock::advance_by(net.latency_us);
            net.seg.borrow_mut().time_ns += net.latency_us * 1000;
            if let Err(e) = net.rx.receive_frame(&a) {
                net.rx_errors.push(format!("{:?}", e));
            }
            net.frames += 1;
        }
    }
}
