//! A CoE (CANopen over EtherCAT) mailbox server for the simulated SubDevices, written from
//! ETG.1000.6. No ethercrab type is used.

use std::collections::BTreeMap;

#[derive(Clone, Copy, Debug, PartialEq, Eq)]
pub enum UploadMode {
    /// expedited when the object has <= 4 bytes, else normal if it fits the mailbox, else segmented
    Auto,
    /// never expedited: normal if it fits, else segmented
    Normal,
    /// always segmented with this many data bytes in the initial response and this many per segment
    Segmented { first: usize, seg: usize },
}

/// What the server does with the next request instead of answering normally.
#[derive(Clone, Debug, PartialEq)]
pub enum Inject {
    Abort(u32),
    Emergency { code: u16, register: u8 },
    /// answer for another object
    WrongObject { index: u16, sub: u8 },
    /// raw mailbox content
    Raw(Vec<u8>),
    /// never answer
    Silent,
}

#[derive(Clone, Debug)]
pub struct Received {
    pub raw: Vec<u8>,
    pub counter: u8,
    pub service: u8,
    pub command: u8,
    pub index: u16,
    pub sub: u8,
    pub complete: bool,
    pub data: Vec<u8>,
}

pub struct CoeServer {
    pub od: BTreeMap<(u16, u8), Vec<u8>>,
    pub mode: UploadMode,
    pub mailbox_out_len: usize,
    out: Option<Vec<u8>>,
    /// replies produced while the out mailbox was still full: a real device cannot overwrite a
    /// mailbox the master has not read; they are handed out one by one as the mailbox is freed
    out_queue: std::collections::VecDeque<Vec<u8>>,
    in_pending: bool,
    /// stale content left in the out mailbox before any request (delivered first)
    pub received: Vec<Received>,
    pub downloads: Vec<(u16, u8, bool, Vec<u8>)>,
    pub inject: Vec<Inject>,
    /// remaining bytes of a segmented upload and the segment size
    seg_rest: Vec<u8>,
    seg_size: usize,
    seg_toggle: bool,
    /// raw replies queued for the following requests (used by C16's scripted contents)
    pub scripted: Vec<Vec<u8>>,
    /// keep replying with this raw content to every request once `scripted` is exhausted
    pub repeat_last_scripted: bool,
    last_scripted: Option<Vec<u8>>,
    pub od_list: Vec<u16>,
    pub sdo_info_fragment: usize,
    info_rest: Vec<u8>,
    info_first: bool,
    pub responses: u64,
    /// content that re-appears in the out mailbox every time it has been read (endless scripts)
    pub refill_after_taken: Option<Vec<u8>>,
}

fn mbx_header(len: usize, counter: u8, ty: u8) -> Vec<u8> {
    let mut v = Vec::new();
    v.extend_from_slice(&(len as u16).to_le_bytes());
    v.extend_from_slice(&[0, 0]); // address
    v.push(0); // channel / priority
    v.push((ty & 0x0f) | ((counter & 0x07) << 4));
    v
}

fn coe_header(service: u8) -> [u8; 2] {
    ((u16::from(service) & 0x0f) << 12).to_le_bytes()
}

impl CoeServer {
    pub fn new(mailbox_out_len: usize) -> Self {
        Self {
            od: BTreeMap::new(),
            mode: UploadMode::Auto,
            mailbox_out_len,
            out: None,
            out_queue: Default::default(),
            in_pending: false,
            received: Vec::new(),
            downloads: Vec::new(),
            inject: Vec::new(),
            seg_rest: Vec::new(),
            seg_size: 7,
            seg_toggle: false,
            scripted: Vec::new(),
            repeat_last_scripted: false,
            last_scripted: None,
            od_list: Vec::new(),
            sdo_info_fragment: 16,
            info_rest: Vec::new(),
            info_first: true,
            responses: 0,
            refill_after_taken: None,
        }
    }

    pub fn set_stale_out(&mut self, content: Vec<u8>) {
        self.out = Some(content);
    }

    pub fn out_full(&self) -> bool {
        self.out.is_some()
    }

    pub fn in_full(&self) -> bool {
        self.in_pending
    }

    /// Content of the out mailbox window (poisoned outside the valid part so that reads beyond
    /// the response are visible).
    pub fn out_content(&self, len: usize) -> Vec<u8> {
        let mut v = vec![0xee; len];
        if let Some(o) = &self.out {
            let n = o.len().min(len);
            v[..n].copy_from_slice(&o[..n]);
        }
        v
    }

    pub fn out_taken(&mut self) {
        self.out = None;
    }

    fn reply(&mut self, content: Vec<u8>) {
        self.responses += 1;
        if self.out.is_some() {
            self.out_queue.push_back(content);
        } else {
            self.out = Some(content);
        }
    }

    /// A complete write of the in mailbox.
    pub fn post(&mut self, raw: &[u8]) {
        if raw.len() < 8 {
            return;
        }
        let mlen = u16::from_le_bytes([raw[0], raw[1]]) as usize;
        let ty = raw[5] & 0x0f;
        let counter = (raw[5] >> 4) & 0x07;
        let service = (u16::from_le_bytes([raw[6], raw[7]]) >> 12) as u8;
        let body = &raw[8..(6 + mlen).min(raw.len()).max(8)];
        let mut rec = Received {
            raw: raw[..(6 + mlen).min(raw.len())].to_vec(),
            counter,
            service,
            command: 0,
            index: 0,
            sub: 0,
            complete: false,
            data: Vec::new(),
        };
        if ty != 3 {
            self.received.push(rec);
            return;
        }
        if let Some(s) = self.scripted.first().cloned() {
            self.scripted.remove(0);
            self.last_scripted = Some(s.clone());
            self.received.push(rec);
            self.reply(s);
            return;
        }
        if self.repeat_last_scripted {
            if let Some(s) = self.last_scripted.clone() {
                self.received.push(rec);
                self.reply(s);
                return;
            }
        }
        match service {
            // SDO request
            2 => {
                if body.is_empty() {
                    return;
                }
                let b0 = body[0];
                let command = b0 >> 5;
                rec.command = command;
                if command == 3 {
                    // upload segment request
                    self.received.push(rec);
                    self.upload_segment(counter);
                    return;
                }
                if body.len() < 4 {
                    return;
                }
                let index = u16::from_le_bytes([body[1], body[2]]);
                let sub = body[3];
                rec.index = index;
                rec.sub = sub;
                rec.complete = b0 & 0x10 != 0;
                rec.data = body[4..].to_vec();
                self.received.push(rec.clone());
                if let Some(inj) = self.inject.first().cloned() {
                    self.inject.remove(0);
                    match inj {
                        Inject::Abort(code) => {
                            self.abort(counter, index, sub, code);
                        }
                        Inject::Emergency { code, register } => {
                            let mut v = mbx_header(10, counter, 3);
                            v.extend_from_slice(&coe_header(1));
                            v.extend_from_slice(&code.to_le_bytes());
                            v.push(register);
                            v.extend_from_slice(&[1, 2, 3, 4, 5]);
                            self.reply(v);
                        }
                        Inject::WrongObject { index, sub } => {
                            let data = vec![0x5a; 2];
                            self.upload_expedited(counter, index, sub, &data);
                        }
                        Inject::Raw(r) => self.reply(r),
                        Inject::Silent => {}
                    }
                    return;
                }
                match command {
                    2 => self.upload(counter, index, sub),
                    1 => {
                        // download: expedited (bit1) with size indicator
                        let expedited = b0 & 0x02 != 0;
                        let n = if expedited {
                            4 - ((b0 >> 2) & 0x03) as usize
                        } else {
                            0
                        };
                        let data = rec.data.iter().copied().take(n).collect::<Vec<u8>>();
                        self.downloads.push((index, sub, rec.complete, data.clone()));
                        self.od.insert((index, sub), data);
                        // download response: scs = 3
                        let mut v = mbx_header(10, counter, 3);
                        v.extend_from_slice(&coe_header(3));
                        v.push(3 << 5);
                        v.extend_from_slice(&index.to_le_bytes());
                        v.push(sub);
                        v.extend_from_slice(&[0, 0, 0, 0]);
                        self.reply(v);
                    }
                    _ => self.abort(counter, index, sub, 0x0504_0001),
                }
            }
            // SDO information
            8 => {
                self.received.push(rec);
                if body.len() < 6 {
                    return;
                }
                let opcode = body[0] & 0x7f;
                if opcode == 1 {
                    let list_type = u16::from_le_bytes([body[4], body[5]]);
                    let mut payload: Vec<u8> = Vec::new();
                    payload.extend_from_slice(&list_type.to_le_bytes());
                    if list_type == 0 {
                        let n = self.od_list.len() as u16;
                        for k in 0..5u16 {
                            payload.extend_from_slice(&(n.saturating_sub(k)).to_le_bytes());
                        }
                    } else {
                        for i in &self.od_list {
                            payload.extend_from_slice(&i.to_le_bytes());
                        }
                    }
                    self.info_rest = payload;
                    self.info_first = true;
                    self.info_fragment(counter);
                }
            }
            _ => {
                self.received.push(rec);
            }
        }
    }

    /// One fragment of an SDO-info list. Subsequent fragments are sent as soon as the previous one
    /// was taken (the simulated device pushes them without a new request).
    fn info_fragment(&mut self, counter: u8) {
        let take = self.sdo_info_fragment.min(self.info_rest.len());
        let chunk: Vec<u8> = self.info_rest.drain(..take).collect();
        let more = !self.info_rest.is_empty();
        let frag_left = (self.info_rest.len() + self.sdo_info_fragment - 1) / self.sdo_info_fragment.max(1);
        // mailbox length = coe(2) + info header(4) + chunk
        let mut v = mbx_header(6 + chunk.len(), counter, 3);
        v.extend_from_slice(&coe_header(8));
        v.push(0x02 | if more { 0x80 } else { 0 });
        v.push(0);
        v.extend_from_slice(&(frag_left as u16).to_le_bytes());
        v.extend_from_slice(&chunk);
        self.reply(v);
    }

    /// Called by the device when the out mailbox was read: push the next SDO-info fragment.
    pub fn after_taken(&mut self) {
        if self.out.is_none() {
            if let Some(next) = self.out_queue.pop_front() {
                self.out = Some(next);
                return;
            }
        }
        if let Some(r) = self.refill_after_taken.clone() {
            if self.out.is_none() && self.last_scripted.is_some() {
                self.out = Some(r);
                return;
            }
        }
        if !self.info_rest.is_empty() && self.out.is_none() {
            self.info_fragment(1);
        }
    }

    fn abort(&mut self, counter: u8, index: u16, sub: u8, code: u32) {
        let mut v = mbx_header(10, counter, 3);
        v.extend_from_slice(&coe_header(2));
        v.push(4 << 5);
        v.extend_from_slice(&index.to_le_bytes());
        v.push(sub);
        v.extend_from_slice(&code.to_le_bytes());
        self.reply(v);
    }

    fn upload_expedited(&mut self, counter: u8, index: u16, sub: u8, data: &[u8]) {
        let n = data.len().min(4);
        let mut v = mbx_header(10, counter, 3);
        v.extend_from_slice(&coe_header(3));
        // scs=2, size indicator, expedited, size = 4 - n
        v.push((2 << 5) | 0x01 | 0x02 | (((4 - n) as u8) << 2));
        v.extend_from_slice(&index.to_le_bytes());
        v.push(sub);
        let mut d = data[..n].to_vec();
        d.resize(4, 0);
        v.extend_from_slice(&d);
        self.reply(v);
    }

    fn upload(&mut self, counter: u8, index: u16, sub: u8) {
        let Some(data) = self.od.get(&(index, sub)).cloned() else {
            self.abort(counter, index, sub, 0x0602_0000);
            return;
        };
        let room = self.mailbox_out_len.saturating_sub(16);
        let mode = self.mode;
        match mode {
            UploadMode::Auto if data.len() <= 4 => self.upload_expedited(counter, index, sub, &data),
            UploadMode::Auto | UploadMode::Normal if data.len() <= room => {
                self.upload_normal(counter, index, sub, &data, data.len(), 7)
            }
            UploadMode::Auto | UploadMode::Normal => {
                let seg = self.mailbox_out_len.saturating_sub(9).max(7);
                self.upload_normal(counter, index, sub, &data, room, seg)
            }
            UploadMode::Segmented { first, seg } => {
                let first = first.min(room).min(data.len().saturating_sub(1));
                self.upload_normal(counter, index, sub, &data, first, seg.max(1))
            }
        }
    }

    /// Normal upload response carrying the first `first` bytes; the rest follows in segments.
    fn upload_normal(&mut self, counter: u8, index: u16, sub: u8, data: &[u8], first: usize, seg: usize) {
        let mut v = mbx_header(10 + first, counter, 3);
        v.extend_from_slice(&coe_header(3));
        v.push((2 << 5) | 0x01);
        v.extend_from_slice(&index.to_le_bytes());
        v.push(sub);
        v.extend_from_slice(&(data.len() as u32).to_le_bytes());
        v.extend_from_slice(&data[..first]);
        self.seg_rest = data[first..].to_vec();
        self.seg_size = seg;
        self.seg_toggle = false;
        self.reply(v);
    }

    fn upload_segment(&mut self, counter: u8) {
        let room = self.mailbox_out_len.saturating_sub(9).max(1);
        let n = self.seg_size.min(room).min(self.seg_rest.len());
        let chunk: Vec<u8> = self.seg_rest.drain(..n).collect();
        let last = self.seg_rest.is_empty();
        // segment data is at least 7 bytes on the wire; the header says how many are unused
        let unused = if n < 7 { 7 - n } else { 0 };
        let mut v = mbx_header(3 + n.max(7), counter, 3);
        v.extend_from_slice(&coe_header(3));
        let mut h = 0u8; // scs = 0 (upload segment response)
        if last {
            h |= 0x01;
        }
        h |= (unused as u8) << 1;
        if self.seg_toggle {
            h |= 0x10;
        }
        v.push(h);
        let mut d = chunk;
        d.resize(n.max(7), 0);
        v.extend_from_slice(&d);
        self.seg_toggle = !self.seg_toggle;
        self.reply(v);
    }
}
